// Records ground truth from a real JavaScript engine (run ONCE at design time; checks never need node):
//   /verif/target/relchk/relchk/jlmon corpus > /tmp/corpus.json && node truth/record_truth.js /tmp/corpus.json > truth/js_truth.json
// Two deliberate differences between the property statements and V8 are filtered out (marked '-'):
//   * a container holding a number whose JSON text differs from its JS text ("[1.0]" is "1.0" by C07, "1" in JS)
//   * string/string comparisons whose UTF-16 order differs from their code-point order (C09: "by code point")
const fs = require('fs');
const corpus = JSON.parse(fs.readFileSync(process.argv[2], 'utf8'));
const texts = corpus.values;
const vals = texts.map(t => JSON.parse(t));
const isContainer = v => v !== null && typeof v === 'object';
const spellingSensitive = texts.map((t, i) => isContainer(vals[i]) && JSON.stringify(vals[i]) !== t);
const prim = v => isContainer(v) ? String(v) : v;
function cpLess(a, b) { // code point order
  const x = Array.from(a), y = Array.from(b);
  for (let i = 0; i < Math.min(x.length, y.length); i++) {
    const p = x[i].codePointAt(0), q = y[i].codePointAt(0);
    if (p !== q) return p < q;
  }
  return x.length < y.length;
}
const repr = x => Number.isNaN(x) ? 'NaN' : x === Infinity ? 'Infinity' : x === -Infinity ? '-Infinity' : Object.is(x, -0) ? '-0' : x.toExponential().replace('e+', 'e');
const ops = { eq: (a, b) => a == b, seq: (a, b) => a === b, lt: (a, b) => a < b, le: (a, b) => a <= b, gt: (a, b) => a > b, ge: (a, b) => a >= b };
const out = { values: texts };
for (const name of Object.keys(ops)) {
  out[name] = [];
  for (let i = 0; i < vals.length; i++) {
    let row = '';
    for (let j = 0; j < vals.length; j++) {
      // distinct instances on both sides
      const a = JSON.parse(texts[i]), b = JSON.parse(texts[j]);
      let excluded = spellingSensitive[i] || spellingSensitive[j];
      if (!excluded && ['lt', 'le', 'gt', 'ge'].includes(name)) {
        const pa = prim(a), pb = prim(b);
        if (typeof pa === 'string' && typeof pb === 'string' && (pa < pb) !== cpLess(pa, pb)) excluded = true;
      }
      row += excluded ? '-' : (ops[name](a, b) ? '1' : '0');
    }
    out[name].push(row);
  }
}
out.numeric_strings = corpus.numeric_strings;
out.number = corpus.numeric_strings.map(s => repr(Number(s)));
out.parsefloat = corpus.numeric_strings.map(s => repr(parseFloat(s)));
const ms = [0, -0, 1, -1, 2, 3, -3, 5.5, -5.5, 0.1, 1e308, 5e-324, 9007199254740993, 1e21, Infinity, -Infinity, NaN, 7, -7, 2.5];
out.mod = [];
for (const a of ms) for (const b of ms) out.mod.push([repr(a), repr(b), repr(a % b)]);
out.tostring = vals.map((v, i) => spellingSensitive[i] || typeof v === 'number' ? null : String(v));
process.stdout.write(JSON.stringify(out));
