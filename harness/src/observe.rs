//! Observation of the real code: call `jsonlogic_rs::apply` (or a helper) under
//! `catch_unwind`, and capture what the call wrote to file descriptor 1.
//!
//! Log capture needs no hook in /repo: fd 1 of the shard process is redirected to an
//! unlinked scratch file; `println!` in the library's `log` operator goes through Rust's
//! line-buffered stdout to that fd, and the monitor reads the bytes appended by each call.

use serde_json::Value;
use std::cell::RefCell;
use std::io::Write;
use std::panic;
use std::sync::atomic::{AtomicBool, Ordering};
use std::sync::Mutex;

#[derive(Debug, Clone)]
pub enum Outcome {
    Ok(Value),
    Err(String),
    Panic(String),
}

impl Outcome {
    pub fn brief(&self) -> Value {
        match self {
            Outcome::Ok(v) => serde_json::json!({ "ok": v }),
            Outcome::Err(e) => serde_json::json!({ "err": e }),
            Outcome::Panic(p) => serde_json::json!({ "panic": p }),
        }
    }
}

#[derive(Debug, Clone)]
pub struct Obs {
    pub out: Outcome,
    pub logs: Vec<String>,
    /// bytes that reached fd 2 during the call (only where the fd-2 capture is on; empty otherwise)
    pub errs: String,
}

thread_local! {
    static LAST_PANIC: RefCell<Option<String>> = RefCell::new(None);
    static IN_CATCH: std::cell::Cell<bool> = const { std::cell::Cell::new(false) };
}
static HOOK_SET: AtomicBool = AtomicBool::new(false);

pub fn install_panic_hook() {
    if HOOK_SET.swap(true, Ordering::SeqCst) {
        return;
    }
    panic::set_hook(Box::new(|info| {
        let loc = info.location().map(|l| format!("{}:{}", l.file(), l.line())).unwrap_or_default();
        let msg = if let Some(s) = info.payload().downcast_ref::<&str>() {
            s.to_string()
        } else if let Some(s) = info.payload().downcast_ref::<String>() {
            s.clone()
        } else {
            "<non-string panic payload>".to_string()
        };
        if !IN_CATCH.with(|c| c.get()) {
            // a panic of the harness itself: make it visible (the orchestrator maps it to "inconclusive")
            real_stderr_write(&format!("HARNESS-PANIC {} @ {}\n", msg, loc));
        }
        LAST_PANIC.with(|p| *p.borrow_mut() = Some(format!("{} @ {}", msg, loc)));
    }));
}

pub fn catch<T, F: FnOnce() -> T + panic::UnwindSafe>(f: F) -> Result<T, String> {
    install_panic_hook();
    let prev = IN_CATCH.with(|c| c.replace(true));
    let r = panic::catch_unwind(f);
    IN_CATCH.with(|c| c.set(prev));
    match r {
        Ok(v) => Ok(v),
        Err(_) => Err(LAST_PANIC.with(|p| p.borrow_mut().take()).unwrap_or_else(|| "panic".into())),
    }
}

/// Call the real `apply` (no log capture).
pub fn call(rule: &Value, data: &Value) -> Outcome {
    match catch(|| jsonlogic_rs::apply(rule, data)) {
        Ok(Ok(v)) => Outcome::Ok(v),
        Ok(Err(e)) => Outcome::Err(e.to_string()),
        Err(p) => Outcome::Panic(p),
    }
}

// ---------------------------------------------------------------------------------------
// fd-1 capture

struct Cap {
    fd: i32,       // the scratch file (also installed as fd 1)
    saved_out: i32, // the original stdout
    pos: i64,
}
static CAP: Mutex<Option<Cap>> = Mutex::new(None);

/// Redirect fd 1 into a scratch file. Returns false where that is impossible (Miri).
pub fn capture_start() -> bool {
    if cfg!(miri) {
        return false;
    }
    let mut g = CAP.lock().unwrap();
    if g.is_some() {
        return true;
    }
    unsafe {
        let name = std::ffi::CString::new("jlmon-logcap").unwrap();
        let fd = libc::memfd_create(name.as_ptr(), 0);
        if fd < 0 {
            return false;
        }
        let _ = std::io::stdout().flush();
        let saved = libc::dup(1);
        if saved < 0 || libc::dup2(fd, 1) < 0 {
            return false;
        }
        *g = Some(Cap { fd, saved_out: saved, pos: 0 });
    }
    true
}

pub fn capture_active() -> bool {
    CAP.lock().unwrap().is_some()
}

/// Undo the redirection (used before printing the final report to the real stdout).
pub fn capture_stop() {
    let mut g = CAP.lock().unwrap();
    if let Some(c) = g.take() {
        let _ = std::io::stdout().flush();
        unsafe {
            libc::dup2(c.saved_out, 1);
            libc::close(c.saved_out);
            libc::close(c.fd);
        }
    }
}

/// Bytes written to fd 1 since the previous call of this function, as lines.
pub fn capture_take() -> Vec<String> {
    let _ = std::io::stdout().flush();
    let mut g = CAP.lock().unwrap();
    let c = match g.as_mut() {
        Some(c) => c,
        None => return vec![],
    };
    let mut buf: Vec<u8> = Vec::new();
    unsafe {
        let end = libc::lseek(c.fd, 0, libc::SEEK_END);
        if end > c.pos {
            let len = (end - c.pos) as usize;
            buf.resize(len, 0);
            let mut got = 0usize;
            while got < len {
                let r = libc::pread(c.fd, buf[got..].as_mut_ptr() as *mut libc::c_void, len - got, c.pos + got as i64);
                if r <= 0 {
                    break;
                }
                got += r as usize;
            }
            buf.truncate(got);
            c.pos = end;
        }
        // keep the scratch file small
        if c.pos > (8 << 20) {
            libc::ftruncate(c.fd, 0);
            libc::lseek(c.fd, 0, libc::SEEK_SET);
            c.pos = 0;
        }
    }
    let s = String::from_utf8_lossy(&buf).to_string();
    let mut lines: Vec<String> = s.split('\n').map(|x| x.to_string()).collect();
    if lines.last().map(|l| l.is_empty()).unwrap_or(false) {
        lines.pop();
    }
    lines
}

/// Call the real `apply` while file descriptor 1 refuses every write (`/dev/full`, or a pipe whose
/// reader has gone): the caller's standard output is not the library's to rely on. Returns the
/// outcome; whatever fd 1 was before (the capture file) is restored afterwards.
pub fn call_with_unwritable_stdout(rule: &Value, data: &Value, closed_pipe: bool) -> Option<Outcome> {
    if cfg!(miri) {
        return None;
    }
    let _ = std::io::stdout().flush();
    unsafe {
        let keep = libc::dup(1);
        if keep < 0 {
            return None;
        }
        let bad = if closed_pipe {
            let mut fds = [0i32; 2];
            if libc::pipe(fds.as_mut_ptr()) != 0 {
                libc::close(keep);
                return None;
            }
            libc::close(fds[0]);
            libc::signal(libc::SIGPIPE, libc::SIG_IGN);
            fds[1]
        } else {
            let path = std::ffi::CString::new("/dev/full").unwrap();
            libc::open(path.as_ptr(), libc::O_WRONLY)
        };
        if bad < 0 || libc::dup2(bad, 1) < 0 {
            libc::close(keep);
            return None;
        }
        let out = call(rule, data);
        // whatever is still buffered belongs to the unwritable descriptor: flush it there, not into the capture
        let _ = std::panic::catch_unwind(|| {
            let _ = std::io::stdout().flush();
        });
        libc::dup2(keep, 1);
        libc::close(keep);
        libc::close(bad);
        Some(out)
    }
}

/// Call the real `apply` and collect the lines it printed.
pub fn observe(rule: &Value, data: &Value) -> Obs {
    if capture_active() {
        let _ = capture_take();
    }
    let ec = errcap_active();
    if ec {
        let _ = errcap_take();
    }
    let out = call(rule, data);
    let logs = if capture_active() { capture_take() } else { vec![] };
    let errs = if ec { errcap_take() } else { String::new() };
    Obs { out, logs, errs }
}

// ---------------------------------------------------------------------------------------
// fd-2 capture (C17: "its only externally visible effect is the line written by `log`").
// Everything that reaches fd 2 is forwarded to the real stderr when it is collected, so the
// harness's own diagnostics are not lost; what arrives *during* a call is the observation.
// Not used in the sanitizer lanes (a report followed by an abort would stay in the scratch file).

struct ErrCap {
    fd: i32,
    saved: i32,
    pos: i64,
}
static ERRCAP: Mutex<Option<ErrCap>> = Mutex::new(None);
static ERRCAP_ON: AtomicBool = AtomicBool::new(false);
static REAL_STDERR: std::sync::atomic::AtomicI32 = std::sync::atomic::AtomicI32::new(2);

pub fn real_stderr_write(s: &str) {
    let fd = REAL_STDERR.load(Ordering::SeqCst);
    unsafe {
        let b = s.as_bytes();
        let mut off = 0usize;
        while off < b.len() {
            let r = libc::write(fd, b[off..].as_ptr() as *const libc::c_void, b.len() - off);
            if r <= 0 {
                break;
            }
            off += r as usize;
        }
    }
}

pub fn errcap_start() -> bool {
    if cfg!(miri) {
        return false;
    }
    let mut g = ERRCAP.lock().unwrap();
    if g.is_some() {
        return true;
    }
    unsafe {
        let name = std::ffi::CString::new("jlmon-errcap").unwrap();
        let fd = libc::memfd_create(name.as_ptr(), 0);
        if fd < 0 {
            return false;
        }
        let saved = libc::dup(2);
        if saved < 0 || libc::dup2(fd, 2) < 0 {
            return false;
        }
        REAL_STDERR.store(saved, Ordering::SeqCst);
        *g = Some(ErrCap { fd, saved, pos: 0 });
    }
    ERRCAP_ON.store(true, Ordering::SeqCst);
    true
}

pub fn errcap_active() -> bool {
    ERRCAP_ON.load(Ordering::Relaxed)
}

pub fn errcap_stop() {
    let _ = errcap_take();
    let mut g = ERRCAP.lock().unwrap();
    if let Some(c) = g.take() {
        ERRCAP_ON.store(false, Ordering::SeqCst);
        unsafe {
            libc::dup2(c.saved, 2);
            REAL_STDERR.store(2, Ordering::SeqCst);
            libc::close(c.saved);
            libc::close(c.fd);
        }
    }
}

/// Bytes written to fd 2 since the previous call of this function (forwarded to the real stderr).
pub fn errcap_take() -> String {
    let mut g = ERRCAP.lock().unwrap();
    let c = match g.as_mut() {
        Some(c) => c,
        None => return String::new(),
    };
    let mut buf: Vec<u8> = Vec::new();
    unsafe {
        let end = libc::lseek(c.fd, 0, libc::SEEK_END);
        if end > c.pos {
            let len = (end - c.pos) as usize;
            buf.resize(len, 0);
            let mut got = 0usize;
            while got < len {
                let r = libc::pread(c.fd, buf[got..].as_mut_ptr() as *mut libc::c_void, len - got, c.pos + got as i64);
                if r <= 0 {
                    break;
                }
                got += r as usize;
            }
            buf.truncate(got);
            c.pos = end;
        }
        if c.pos > (8 << 20) {
            libc::ftruncate(c.fd, 0);
            libc::lseek(c.fd, 0, libc::SEEK_SET);
            c.pos = 0;
        }
    }
    let s = String::from_utf8_lossy(&buf).to_string();
    if !s.is_empty() {
        real_stderr_write(&s);
    }
    s
}

/// Per-thread CPU time in nanoseconds (bounded-termination monitor of C01).
pub fn thread_cpu_ns() -> u64 {
    if cfg!(miri) {
        return 0;
    }
    unsafe {
        let mut ts: libc::timespec = std::mem::zeroed();
        libc::clock_gettime(libc::CLOCK_THREAD_CPUTIME_ID, &mut ts);
        ts.tv_sec as u64 * 1_000_000_000 + ts.tv_nsec as u64
    }
}

// ---------------------------------------------------------------------------------------
// bounded-termination watchdog (C01 "never hangs", restated as a CPU-time bound per call)
//
// A monitor-owned thread samples a call counter every 50 ms. While the counter does not move
// (the same call is still in flight) it accumulates the *process CPU time* consumed; when that
// exceeds the budget the in-flight (rule, data) is written to `<out>.hang` (or, in libcall mode,
// answered with `@@RET {"hang": true}`) and the process exits with status 3. CPU time, not wall
// clock, so a loaded machine cannot turn the watchdog into a verdict.

use std::sync::atomic::{AtomicPtr, AtomicU64};

static WD_CALLS: AtomicU64 = AtomicU64::new(0);
static WD_ARMED: AtomicBool = AtomicBool::new(false);
static WD_RULE: AtomicPtr<Value> = AtomicPtr::new(std::ptr::null_mut());
static WD_DATA: AtomicPtr<Value> = AtomicPtr::new(std::ptr::null_mut());

fn process_cpu_ns() -> u64 {
    unsafe {
        let mut ts: libc::timespec = std::mem::zeroed();
        libc::clock_gettime(libc::CLOCK_PROCESS_CPUTIME_ID, &mut ts);
        ts.tv_sec as u64 * 1_000_000_000 + ts.tv_nsec as u64
    }
}

/// Arm the watchdog for one single-threaded call. The pointers stay valid for the whole call
/// (the caller holds the references) and the values are not mutated while it runs.
pub fn wd_arm(rule: &Value, data: &Value) {
    WD_RULE.store(rule as *const Value as *mut Value, Ordering::SeqCst);
    WD_DATA.store(data as *const Value as *mut Value, Ordering::SeqCst);
    WD_CALLS.fetch_add(1, Ordering::SeqCst);
    WD_ARMED.store(true, Ordering::SeqCst);
}
pub fn wd_disarm() {
    WD_ARMED.store(false, Ordering::SeqCst);
    WD_CALLS.fetch_add(1, Ordering::SeqCst);
}

/// `report`: Some(path) writes the hang record there; None = libcall mode (answer on fd `answer_fd`).
pub fn wd_start(report: Option<String>, budget_ns: u64) {
    if cfg!(miri) {
        return;
    }
    std::thread::spawn(move || {
        let mut last_calls = u64::MAX;
        let mut cpu_at_change = process_cpu_ns();
        loop {
            std::thread::sleep(std::time::Duration::from_millis(50));
            let calls = WD_CALLS.load(Ordering::SeqCst);
            let now = process_cpu_ns();
            if calls != last_calls || !WD_ARMED.load(Ordering::SeqCst) {
                last_calls = calls;
                cpu_at_change = now;
                continue;
            }
            if now.saturating_sub(cpu_at_change) > budget_ns {
                let (r, d) = (WD_RULE.load(Ordering::SeqCst), WD_DATA.load(Ordering::SeqCst));
                let (rt, dt) = unsafe { ((*r).clone(), (*d).clone()) };
                let rec = serde_json::json!({"hang": true, "rule": rt, "data": dt, "cpu_ns_in_call": now - cpu_at_change, "budget_ns": budget_ns});
                match &report {
                    Some(p) => {
                        let _ = std::fs::write(p, rec.to_string());
                    }
                    None => {
                        // libcall mode: fd 1 is the answer channel
                        let line = format!("@@RET {}\n", serde_json::json!({"hang": true, "cpu_ns_in_call": now - cpu_at_change}));
                        unsafe {
                            libc::write(1, line.as_ptr() as *const libc::c_void, line.len());
                        }
                    }
                }
                unsafe { libc::_exit(3) };
            }
        }
    });
}

// ---------------------------------------------------------------------------------------
// environment-independence lane (C17): the LD_PRELOAD interposer harness/shim/jlshim.c, if loaded

type ShimArm = unsafe extern "C" fn(i32);
type ShimTake = unsafe extern "C" fn(*mut u8, usize) -> u64;

pub fn shim() -> Option<(ShimArm, ShimTake)> {
    if cfg!(miri) {
        return None;
    }
    unsafe {
        let a = libc::dlsym(libc::RTLD_DEFAULT, b"jl_shim_arm\0".as_ptr() as *const libc::c_char);
        let t = libc::dlsym(libc::RTLD_DEFAULT, b"jl_shim_take\0".as_ptr() as *const libc::c_char);
        if a.is_null() || t.is_null() {
            return None;
        }
        Some((std::mem::transmute::<*mut libc::c_void, ShimArm>(a), std::mem::transmute::<*mut libc::c_void, ShimTake>(t)))
    }
}

/// `apply` with the calling thread armed in the interposer; returns the outcome, how many
/// environment / clock / random / file sources were consulted during the call, and which.
pub fn call_armed(sh: (ShimArm, ShimTake), rule: &Value, data: &Value) -> (Outcome, u64, String) {
    let mut buf = vec![0u8; 4096];
    unsafe {
        let _ = (sh.1)(buf.as_mut_ptr(), buf.len());
        (sh.0)(1);
    }
    let out = call(rule, data);
    let n = unsafe {
        (sh.0)(0);
        (sh.1)(buf.as_mut_ptr(), buf.len())
    };
    let end = buf.iter().position(|b| *b == 0).unwrap_or(buf.len());
    (out, n, String::from_utf8_lossy(&buf[..end]).to_string())
}
