use crate::ctx::Ctx;
pub fn c02(_c: &mut Ctx) {}
pub fn c03(_c: &mut Ctx) {}
