//! C02 (what is a rule, what is a literal) and C03 (arity, bracket-less form).

use crate::corpus::*;
use crate::ctx::{type_name, Ctx};
use crate::observe::Outcome;
use crate::refsem::{self, MOut};
use serde_json::{json, Map, Value};

fn obj(pairs: Vec<(String, Value)>) -> Value {
    let mut m = Map::new();
    for (k, v) in pairs {
        m.insert(k, v);
    }
    Value::Object(m)
}

/// A type-valid operand tuple of length `n` for `op` (used where the count is documented),
/// padded / truncated for other counts.
pub fn valid_tuple(op: &str, n: usize) -> Vec<Value> {
    let base: Vec<Value> = match op {
        "==" | "!=" | "===" | "!==" => vec![json!(1), json!("1")],
        "!" | "!!" => vec![json!(0)],
        "<" | "<=" | ">" | ">=" => vec![json!(1), json!(2), json!(3)],
        "+" | "*" | "max" | "min" => vec![json!(2), json!(3.5), json!("4"), json!(5), json!(6), json!(7)],
        "-" => vec![json!(5), json!(3)],
        "/" => vec![json!(6), json!(3)],
        "%" => vec![json!(7), json!(3)],
        "merge" => vec![json!([1]), json!(2), json!([[3]]), json!("x"), json!([]), json!(null)],
        "in" => vec![json!("b"), json!("abc")],
        "cat" => vec![json!("a"), json!(1), json!([2, 3]), json!(null), json!("z"), json!(true)],
        "substr" => vec![json!("héllo"), json!(1), json!(2)],
        "log" => vec![json!("logged")],
        "var" => vec![json!("a"), json!("dflt")],
        "missing" => vec![json!("a"), json!("zz"), json!("b.c"), json!("q"), json!("a"), json!("w")],
        "missing_some" => vec![json!(1), json!(["a", "zz"])],
        "if" | "?:" => vec![json!(false), json!("t1"), json!(0), json!("t2"), json!(true), json!("t3"), json!("else")],
        "or" => vec![json!(0), json!(""), json!([]), json!("x"), json!(1), json!(2)],
        "and" => vec![json!(1), json!("x"), json!([0]), json!(0), json!(1), json!(2)],
        "map" => vec![json!([1, 2, 3]), json!({"*": [{"var": ""}, 2]})],
        "filter" => vec![json!([1, 0, 3]), json!({"var": ""})],
        "reduce" => vec![json!([1, 2, 3]), json!({"+": [{"var": "current"}, {"var": "accumulator"}]}), json!(10)],
        "all" | "some" | "none" => vec![json!([1, 2, 0]), json!({">": [{"var": ""}, 0]})],
        _ => vec![],
    };
    let mut out: Vec<Value> = base.iter().take(n).cloned().collect();
    while out.len() < n {
        out.push(json!(1));
    }
    out
}

fn data_set() -> Vec<Value> {
    vec![
        Value::Null,
        json!(1),
        json!("s"),
        json!([1, 2, "x"]),
        json!({"a": 1, "b": {"c": 2}, "var": "a", "x": {"var": "a"}, "secret": 424242}),
        json!({"a": {"log": "LEAK-data"}, "": 5, "0": "zero"}),
        json!([{"a": 1}, {"+": [1, 2]}]),
        json!(true),
    ]
}

// =======================================================================================
// C02

fn near_miss_keys(op: &str) -> Vec<String> {
    let mut v = vec![
        format!(" {}", op),
        format!("{} ", op),
        format!("\t{}", op),
        format!("{}\u{A0}", op),
        format!("{}{}", op, op.chars().last().unwrap()),
        format!("x{}", op),
        format!("{}x", op),
        format!("{}\u{0}", op),
        format!("\u{FEFF}{}", op),
        op.to_uppercase(),
        {
            let mut c = op.chars();
            let f = c.next().unwrap();
            format!("{}{}", f.to_uppercase(), c.as_str())
        },
        op.chars().take(op.chars().count().saturating_sub(1)).collect::<String>(),
        format!("{}.", op),
        format!("${}", op),
    ];
    // look-alikes
    v.push(op.replace('a', "\u{430}").replace('o', "\u{43E}").replace('i', "\u{456}").replace('=', "\u{FF1D}").replace('!', "\u{FF01}").replace('<', "\u{FF1C}").replace('+', "\u{FF0B}"));
    v.retain(|k| !refsem::is_operator(k));
    v.sort();
    v.dedup();
    v
}

pub const FOREIGN_KEYS: &[&str] = &[
    "&&", "||", "&", "|", "^", "~", "not", "NOT", "AND", "OR", "xor", "nor", "nand", "<>", "=>", "->", "=", "<=>", "≠", "≤", "≥", "eq", "ne", "neq", "gt", "lt", "gte", "lte", "ge", "le", "equals", "is", "isnt",
    "**", "//", "mod", "div", "rem", "add", "sub", "mul", "plus", "minus", "times", "sum", "avg", "mean", "abs", "ceil", "floor", "round", "sqrt", "pow", "exp", "neg", "count", "len", "length", "size",
    "contains", "includes", "startsWith", "endsWith", "starts_with", "ends_with", "regex", "match", "matches", "like", "between", "exists", "typeof", "isNull", "is_null", "coalesce", "concat", "join", "split",
    "lower", "upper", "trim", "replace", "date", "now", "ifelse", "else", "then", "elif", "case", "switch", "when", "default", "let", "fn", "lambda", "apply", "call", "eval", "get", "set", "path", "ref",
    "$ref", "$eval", "$var", "$if", "$and", "$or", "$not", "$eq", "$ne", "$gt", "$lt", "$in", "$nin", "variable", "vars", "in_array", "not_in", "nin", "any", "every", "find", "sort", "reverse", "unique",
    "distinct", "flatten", "keys", "values", "entries", "empty", "is_empty", "defined", "undefined", "null", "true", "false", "method", "preserve", "rule", "rules", "operator", "op", "args", "!!!", "====",
    "!===", "=<", "=>=", ">>", "<<", "++", "--", "+=", "?", ":", "??", "?.", "if_", "if?", "?:?", "iff", "unless", "none_of", "all_of", "any_of", "some_of", "map_", "filter_", "reduce_", "fold", "each",
    "missing_all", "missing_any", "has", "has_key", "in?", "cat_", "str", "string", "number", "int", "float", "bool", "array", "object", "list", "dict", "tuple", "max_", "min_", "maximum", "minimum",
];

fn c02_literal(ctx: &mut Ctx, v: &Value, datas: &[Value], class: &str) {
    debug_assert!(refsem::as_op(v).is_none());
    for d in datas {
        let (obs, _) = ctx.check("c02.model", v, d);
        ctx.mon("c02.identity").observed += 1;
        ctx.mon("c02.identity").judged += 1;
        let same = match &obs.out {
            Outcome::Ok(r) => r.to_string() == v.to_string(),
            _ => false,
        };
        if !same {
            ctx.violation("c02.identity", &format!("not-identity:{}:{}", class, type_name(v)), v, d, json!({"ok": v}), obs.out.brief(), "a non-rule value did not evaluate to itself");
        }
        if !obs.logs.is_empty() {
            ctx.violation("c02.identity", &format!("literal-logged:{}", class), v, d, json!("no output"), json!(obs.logs), "something inside a literal was evaluated (a log line appeared)");
        }
    }
    ctx.cell(&format!("literal:{}", class));
    if class != "plain" {
        ctx.mark_nontrivial_key(&format!("c02:{}", v));
    }
}

fn c02_core(ctx: &mut Ctx) {
    let datas = data_set();
    let ops = all_ops();
    let mut idx = 0u64;
    // (a) plain literals of V
    for v in v_all() {
        idx += 1;
        if ctx.mine(idx) && refsem::as_op(&v).is_none() {
            c02_literal(ctx, &v, &datas, "plain");
        }
    }
    // near-miss single-key objects, multi-key objects, operation-shaped members of arrays / objects
    let members: Vec<Value> = vec![json!({"log": "LEAK-lit"}), json!({"/": [1]}), json!({"var": "a"}), json!({"+": [1, 2]}), json!({"if": [true, {"log": "LEAK-if"}]}), json!({"var": [[]]})];
    for op in ops.iter() {
        let args_list = vec![Value::Array(valid_tuple(op, 2)), json!("a"), json!([{"log": "LEAK-arg"}]), json!(null)];
        for k in near_miss_keys(op) {
            for a in args_list.iter() {
                idx += 1;
                if ctx.mine(idx) {
                    c02_literal(ctx, &obj(vec![(k.clone(), a.clone())]), &datas, "near-miss-key");
                }
            }
        }
        // multi-key objects holding operator keys
        for op2 in ops.iter() {
            idx += 1;
            if !ctx.mine(idx) || op == op2 {
                continue;
            }
            let v = obj(vec![(op.to_string(), Value::Array(valid_tuple(op, 2))), (op2.to_string(), json!([{"log": "LEAK-multi"}]))]);
            c02_literal(ctx, &v, &datas[..3], "two-operator-keys");
        }
        idx += 1;
        if ctx.mine(idx) {
            let v = obj(vec![(op.to_string(), Value::Array(valid_tuple(op, 2))), ("zzz".to_string(), json!(1))]);
            c02_literal(ctx, &v, &datas, "operator-key-plus-other");
            let v = obj(vec![(op.to_string(), json!({"log": "LEAK-m"})), ("".to_string(), json!({"/": [1]}))]);
            c02_literal(ctx, &v, &datas, "operator-key-plus-other");
        }
    }
    // single-key objects keyed by operator spellings of *other* languages and rule engines (and by
    // JsonLogic operators this implementation does not have): unknown keys, hence literals
    for k in FOREIGN_KEYS.iter() {
        idx += 1;
        if !ctx.mine(idx) || refsem::is_operator(k) {
            continue;
        }
        for a in [json!([1, 2]), json!("a"), json!([{"log": "LEAK-arg"}, {"var": "a"}]), json!({"var": "a"}), json!([])] {
            let lit = obj(vec![(k.to_string(), a)]);
            c02_literal(ctx, &lit, &datas[..4], "foreign-operator-key");
            // and in operand position of real operators
            for rule in [json!({"merge": [[lit.clone()]]}), json!({"if": [lit.clone(), lit.clone(), 0]}), json!({"==": [lit.clone(), "[object Object]"]}), json!({"map": [[1], lit.clone()]}), json!({"and": [1, lit.clone()]}), json!({"var": ["nope", lit.clone()]})] {
                ctx.check("c02.model", &rule, &datas[0]);
            }
        }
    }
    c02_literal(ctx, &json!({}), &datas, "empty-object");
    c02_literal(ctx, &json!({"": [1]}), &datas, "near-miss-key");
    for m in members.iter() {
        idx += 1;
        if !ctx.mine(idx) {
            continue;
        }
        c02_literal(ctx, &json!([m]), &datas, "array-with-operation-member");
        c02_literal(ctx, &json!([1, [m, {"k": m}]]), &datas, "array-with-operation-member");
        c02_literal(ctx, &json!({"k": m, "j": [m]}), &datas, "object-with-operation-member");
        c02_literal(ctx, &json!({ "k": m }), &datas, "object-with-operation-member");
        // literals as operands of real operators stay uninterpreted
        for rule in [json!({"cat": [[m]]}), json!({"merge": [[m], {"k": m, "j": 1}]}), json!({"!!": [[m]]}), json!({"in": [{"k": m, "j": 1}, [[m], {"j": 1, "k": m}]]}), json!({"if": [[m], {"k": m, "z": 0}, 0]}), json!({"map": [[1], {"k": m, "z": 0}]}), json!({"==": [[m], "[object Object]"]}), json!({"var": ["nope", [m]]})] {
            for d in datas.iter().take(5) {
                ctx.check("c02.model", &rule, d);
            }
            ctx.mark_nontrivial(&rule, &Value::Null);
            ctx.cell("literal-operand-inside-operator");
        }
        // the documented exception: elements of a literal array given to all/some/none ARE evaluated
        for q in ["all", "some", "none"] {
            let rule = json!({ q: [[m, {"var": "a"}], {"!!": [{"var": ""}]}] });
            for d in datas.iter() {
                ctx.check("c02.model", &rule, d);
            }
            ctx.cell("quantifier-literal-array-elements");
        }
    }
    // (b) dispatch: a distinguishing tuple per operator
    let d = json!({"a": 7, "b": {"c": 2}, "arr": [3, 0, 5], "s": "héllo"});
    for op in ops.iter() {
        let n = match *op {
            "!" | "!!" | "log" => 1,
            "reduce" | "substr" | "<" | "<=" | ">" | ">=" => 3,
            "if" | "?:" => 5,
            "+" | "*" | "max" | "min" | "cat" | "merge" | "missing" | "or" | "and" => 4,
            _ => 2,
        };
        let rule = json!({ *op: valid_tuple(op, n) });
        let (_, mo) = ctx.check("c02.dispatch", &rule, &d);
        // is the tuple distinguishing? (model under op differs from model under every other operator)
        let mut distinguishing = true;
        for other in ops.iter() {
            if other == op || (matches!(*op, "if" | "?:") && matches!(*other, "if" | "?:")) {
                continue;
            }
            let (mo2, _) = refsem::model(&json!({ *other: valid_tuple(op, n) }), &d);
            if mo2 == mo && mo != MOut::Err {
                distinguishing = false;
            }
        }
        ctx.cell(if distinguishing { "dispatch:distinguishing-tuple" } else { "dispatch:non-distinguishing-tuple" });
        ctx.mark_nontrivial(&rule, &d);
        ctx.sample(json!({"rule": rule, "model": crate::ctx::model_json(&mo)}));
    }
    ctx.exhaustive_parts.push("35 operator names x 14 near-miss key forms x 4 operand shapes x 8 data values; all ordered pairs of operator keys in two-key objects".into());
    // random: literal-heavy nesting inside operator arguments
    let n = ctx.budget(4_000, 800_000);
    let mut g = RuleGen::new();
    g.probes = 0;
    g.poison = 0;
    let junk = [" ", "\t", "\n", "\u{A0}", "\u{200B}", "\u{FEFF}", "\u{301}", "_", "-", ".", "$", "0", "s", "S", "=", "!", "<", ">", "?", ":", "\u{0}", "é", "\u{FF1D}"];
    for _ in 0..n {
        let dd = rand_data(&mut ctx.rng, 3, 10, &mut 0);
        if ctx.rng.chance(1, 4) {
            // a randomly mutated operator name is (almost always) not an operator name
            let op = *ctx.rng.pick(&ops);
            let mut cs: Vec<String> = op.chars().map(|c| c.to_string()).collect();
            for _ in 0..1 + ctx.rng.below(2) {
                let k = ctx.rng.below(cs.len() + 1);
                match ctx.rng.below(5) {
                    0 if !cs.is_empty() => {
                        cs.remove(k.min(cs.len() - 1));
                    }
                    1 if !cs.is_empty() => {
                        let i = k.min(cs.len() - 1);
                        cs[i] = if ctx.rng.chance(1, 2) { cs[i].to_uppercase() } else { ctx.rng.pick(&junk).to_string() };
                    }
                    2 if cs.len() >= 2 => {
                        let i = k.min(cs.len() - 2);
                        cs.swap(i, i + 1);
                    }
                    3 => {
                        let other = *ctx.rng.pick(&ops);
                        cs.insert(k.min(cs.len()), other.to_string());
                    }
                    _ => cs.insert(k.min(cs.len()), ctx.rng.pick(&junk).to_string()),
                }
            }
            let key: String = cs.concat();
            if !refsem::is_operator(&key) {
                let n_args = ctx.rng.below(4);
                let args = if ctx.rng.chance(1, 3) { json!({"log": "LEAK-mut"}) } else { Value::Array(valid_tuple(op, n_args)) };
                c02_literal(ctx, &obj(vec![(key, args)]), &[dd], "mutated-operator-name");
                continue;
            }
        }
        if ctx.rng.chance(1, 2) {
            // a random non-rule value: multi-key / unknown-key objects with operation-shaped members
            let mut v = rand_value(&mut ctx.rng, 3);
            if let Value::Object(m) = &mut v {
                if m.len() == 1 && ctx.rng.chance(1, 2) {
                    m.insert("pad".into(), json!({"log": "LEAK-pad"}));
                }
            }
            if refsem::as_op(&v).is_none() {
                c02_literal(ctx, &v, &[dd], "random");
                continue;
            }
        }
        let rule = g.rule(&mut ctx.rng, &dd, 3, 3);
        ctx.check("c02.model", &rule, &dd);
    }
}

// =======================================================================================
// C03

fn same_outcome(a: &Outcome, b: &Outcome) -> bool {
    match (a, b) {
        (Outcome::Ok(x), Outcome::Ok(y)) => x.to_string() == y.to_string(),
        (Outcome::Err(_), Outcome::Err(_)) => true,
        (Outcome::Panic(_), Outcome::Panic(_)) => true, // totality is C01's subject
        _ => false,
    }
}

fn c03_core(ctx: &mut Ctx) {
    let ops = all_ops();
    let datas = vec![Value::Null, json!({"a": 1, "b": {"c": 2}, "k": "a"}), json!([10, 20, 30]), json!("data-string")];
    let v = v_all();
    let mut idx = 0u64;
    let per_cell = if ctx.thorough() { 200 } else { 8 };
    for op in ops.iter() {
        for n in 0..=6usize {
            idx += 1;
            if !ctx.mine(idx) {
                continue;
            }
            let documented = refsem::arity_ok(op, n) == Some(true);
            let mut tuples: Vec<(Vec<Value>, bool)> = vec![(valid_tuple(op, n), true)];
            // "tolerant" tuples: operands under which an implementation that ignored a surplus
            // operand or invented a missing one would succeed (so that the error cannot come
            // from somewhere else and hide a lenient operand count)
            let fillers: [Vec<Value>; 7] = [
                vec![json!(1), json!(2), json!(3), json!(4), json!(5), json!(6)],
                vec![json!([1, 2]), json!([3]), json!([]), json!([4, 5]), json!([6]), json!([7])],
                vec![json!("a"), json!("abc"), json!("b"), json!("c"), json!("d"), json!("e")],
                vec![json!([1, 2]), json!({"var": "current"}), json!(0), json!(1), json!(2), json!(3)],
                vec![json!([1, 2]), json!({"var": ""}), json!([]), json!(true), json!(1), json!(2)],
                vec![json!("abc"), json!(1), json!(1), json!(1), json!(1), json!(1)],
                vec![json!(1), json!(["a", "b"]), json!(1), json!("a"), json!(1), json!(1)],
            ];
            for f in fillers.iter() {
                tuples.push((f.iter().take(n).cloned().collect(), false));
            }
            for _ in 0..per_cell {
                let t: Vec<Value> = (0..n)
                    .map(|_| loop {
                        let x = ctx.rng.pick(&v).clone();
                        if refsem::as_op(&x).is_none() || ctx.rng.chance(1, 4) {
                            break x;
                        }
                    })
                    .collect();
                tuples.push((t, false));
            }
            for (t, type_valid) in tuples.iter() {
                let rule = json!({ *op: t });
                for d in datas.iter() {
                    let (obs, _mo) = ctx.check("c03.model", &rule, d);
                    ctx.mon("c03.arity").observed += 1;
                    ctx.mon("c03.arity").judged += 1;
                    let is_ok = matches!(obs.out, Outcome::Ok(_));
                    if !documented && !matches!(obs.out, Outcome::Err(_)) {
                        ctx.violation("c03.arity", &format!("accepted-undocumented-count:{}:{}", op, n), &rule, d, json!("an error"), obs.out.brief(), "an operand count outside the documented set was not rejected with an error");
                    }
                    if documented && *type_valid && !is_ok {
                        ctx.violation("c03.arity", &format!("rejected-documented-count:{}:{}", op, n), &rule, d, json!("a value"), obs.out.brief(), "a documented operand count with type-valid operands was rejected");
                    }
                    ctx.cell(&format!("arity:{}:{}:{}", op, n, if is_ok { "ok" } else { "err" }));
                }
            }
            ctx.mark_nontrivial_key(&format!("c03:{}:{}:bracketed", op, n));
        }
        // bracket-less form: {op: x} == {op: [x]} for every non-array x
        for x in v.iter() {
            idx += 1;
            if !ctx.mine(idx) || x.is_array() {
                continue;
            }
            for d in datas.iter() {
                let bare = json!({ *op: x });
                let wrapped = json!({ *op: [x] });
                let (o1, _) = ctx.check("c03.model", &bare, d);
                let (o2, _) = ctx.check("c03.model", &wrapped, d);
                ctx.mon("c03.unary-form").observed += 1;
                ctx.mon("c03.unary-form").judged += 1;
                if !same_outcome(&o1.out, &o2.out) || o1.logs != o2.logs {
                    ctx.violation("c03.unary-form", &format!("bare-vs-bracketed:{}:{}", op, type_name(x)), &bare, d, json!({"bracketed": o2.out.brief(), "logs": o2.logs}), json!({"bare": o1.out.brief(), "logs": o1.logs}), "{op: x} does not mean {op: [x]}");
                }
                ctx.cell(&format!("unary-form:{}:{}", op, if matches!(o1.out, Outcome::Ok(_)) { "ok" } else { "err" }));
            }
            ctx.mark_nontrivial_key(&format!("c03:{}:bare:{}", op, type_name(x)));
        }
        // bare operand that is itself an operation: {"var": {"var": "k"}}
        idx += 1;
        if ctx.mine(idx) {
            for inner in [json!({"var": "k"}), json!({"cat": ["a"]}), json!({"log": "p-inner"}), json!({"merge": [[1, 2]]})] {
                for d in datas.iter() {
                    let bare = json!({ *op: inner });
                    let wrapped = json!({ *op: [inner] });
                    let (o1, _) = ctx.check("c03.model", &bare, d);
                    let (o2, _) = ctx.check("c03.model", &wrapped, d);
                    ctx.mon("c03.unary-form").observed += 1;
                    ctx.mon("c03.unary-form").judged += 1;
                    if !same_outcome(&o1.out, &o2.out) || o1.logs != o2.logs {
                        ctx.violation("c03.unary-form", &format!("bare-vs-bracketed:{}:operation", op), &bare, d, json!({"bracketed": o2.out.brief(), "logs": o2.logs}), json!({"bare": o1.out.brief(), "logs": o1.logs}), "{op: x} does not mean {op: [x]}");
                    }
                }
            }
        }
    }
    ctx.exhaustive_parts.push("35 operators x operand counts 0..6 x {type-valid tuple, random tuples} x 4 data values; 35 operators x every non-array corpus value in bracket-less form".into());
    ctx.sample(json!({"cell": "operator x count x form", "example": {"<": [1, 2, 3, 4]}, "documented": false}));
    ctx.sample(json!({"cell": "bracket-less", "example": [{"var": {"var": "k"}}, {"var": [{"var": "k"}]}]}));
}

pub fn c02(ctx: &mut Ctx) {
    c02_core(ctx);
    c02_lookalikes(ctx);
    crate::props_sizes::c02(ctx);
    crate::props_far::c02(ctx);
}

/// The bracket-less law on operands that *mean* something to the operator: keys and paths that
/// resolve (or just fail to resolve) in the data, in every escaping, for `var` / `missing`; for the
/// other one-operand-capable operators, references to such data. A shortcut taken for the bare
/// spelling only (a direct map lookup, a borrowed value) differs exactly here.
fn c03_unary_meaningful(ctx: &mut Ctx) {
    let trees = vec![
        json!({"a": {"b": {"c": 1}}, "a.b": "dotted", "a\\b": "backslash", "a\\": "trailing", "\\a": "leading", "a\\.b": "both", "x": null, "e": "", "z": [], "0": "zero-key", "-1": "minus-one-key", "1": "one-key", "01": "zero-one",
               "arr": [10, [20, 21], {"k": "v"}, null, "str"], "s": "h\u{e9}llo\u{1F600}", "": {"": "empty-empty", "q": 1}, "\u{e9}": {"\u{65e5}": 3}, "\u{1F600}": "astral-key", "k": "a", "true": 1, "null": 2, "1.5": 3}),
        json!([1, [2, [3, [4]]], {"a": [5, 6]}, "\u{65e5}\u{672c}\u{8a9e}", null, "", []]),
        json!("a\u{1F600}\u{e9}\u{65e5}z"),
        json!({"k": "a.b", "a": {"b": 7}}),
        json!(5),
        json!(null),
    ];
    let keys: Vec<Value> = vec![
        json!("a"), json!("a.b"), json!("a.b.c"), json!("a\\.b"), json!("a\\b"), json!("a\\\\b"), json!("a\\"), json!("a\\\\"), json!("\\a"), json!("\\\\a"), json!("a\\\\.b"), json!("a\\\\\\.b"), json!("x"), json!("e"), json!("z"),
        json!("0"), json!("-1"), json!("1"), json!("01"), json!("+1"), json!("arr.1.0"), json!("arr.-1"), json!("arr.2.k"), json!("s.1"), json!("s.-1"), json!("s.5"), json!(""), json!(".q"), json!("."), json!("\u{e9}.\u{65e5}"),
        json!("\u{1F600}"), json!("\\\u{1F600}"), json!("\\\u{e9}.\\\u{65e5}"), json!("zz"), json!("k"), json!("true"), json!("null"), json!("1.5"), json!("2.0"), json!("2.0.0"), json!("-1.0"),
        json!(0), json!(1), json!(-1), json!(2), json!(5), json!(-7), json!(1.5), json!(true), json!(false), json!(null), json!({}), json!({"a": 1}),
    ];
    let mut idx = 0u64;
    for op in ["var", "missing", "missing_some"] {
        for k in keys.iter() {
            idx += 1;
            if !ctx.mine(idx) {
                continue;
            }
            for d in trees.iter() {
                let bare = json!({ op: k });
                let wrapped = json!({ op: [k] });
                let (o1, _) = ctx.check("c03.model", &bare, d);
                let (o2, _) = ctx.check("c03.model", &wrapped, d);
                ctx.mon("c03.unary-form").observed += 1;
                ctx.mon("c03.unary-form").judged += 1;
                if !same_outcome(&o1.out, &o2.out) || o1.logs != o2.logs {
                    ctx.violation("c03.unary-form", &format!("bare-vs-bracketed:{}:key:{}", op, type_name(k)), &bare, d, json!({"bracketed": o2.out.brief(), "logs": o2.logs}), json!({"bare": o1.out.brief(), "logs": o1.logs}), "{op: x} does not mean {op: [x]}");
                }
            }
            ctx.mark_nontrivial_key(&format!("c03:{}:bare-key:{}", op, k));
        }
    }
    // references to such data under every operator (the operand is an operation, so the bare form is legal JSON for all of them)
    let refs: Vec<Value> = vec![json!({"var": "a"}), json!({"var": "arr"}), json!({"var": "arr.1"}), json!({"var": "s"}), json!({"var": "x"}), json!({"var": "k"}), json!({"var": ""}), json!({"var": "a\\b"}), json!({"var": 1}),
                                json!({"var": {"var": "k"}}), json!({"missing": ["a", "zz"]}), json!({"merge": [{"var": "arr"}, 1]}), json!({"cat": [{"var": "s"}, "!"]}), json!({"if": [{"var": "x"}, 1, {"var": "arr"}]})];
    for op in all_ops() {
        for r in refs.iter() {
            idx += 1;
            if !ctx.mine(idx) {
                continue;
            }
            for d in trees.iter() {
                let bare = json!({ op: r });
                let wrapped = json!({ op: [r] });
                let (o1, _) = ctx.check("c03.model", &bare, d);
                let (o2, _) = ctx.check("c03.model", &wrapped, d);
                ctx.mon("c03.unary-form").observed += 1;
                ctx.mon("c03.unary-form").judged += 1;
                if !same_outcome(&o1.out, &o2.out) || o1.logs != o2.logs {
                    ctx.violation("c03.unary-form", &format!("bare-vs-bracketed:{}:reference", op), &bare, d, json!({"bracketed": o2.out.brief(), "logs": o2.logs}), json!({"bare": o1.out.brief(), "logs": o1.logs}), "{op: x} does not mean {op: [x]}");
                }
            }
        }
    }
    ctx.cell("unary-form:meaningful-operands");
}

pub fn c03(ctx: &mut Ctx) {
    c03_core(ctx);
    c03_unary_meaningful(ctx);
    c03_nested(ctx);
    c03_nested2(ctx);
    crate::props_sizes::c03(ctx);
    crate::props_far::c03(ctx);
}

/// Templates with a hole: contexts in which an operand expression is certainly evaluated.
fn contexts() -> Vec<(&'static str, fn(Value) -> Value)> {
    vec![
        ("top", |h| h),
        ("eager-arg", |h| json!({"merge": [h, 1]})),
        ("eager-second", |h| json!({"cat": ["x", h]})),
        ("not", |h| json!({"!": [h]})),
        ("if-cond", |h| json!({"if": [h, 1, 2]})),
        ("if-branch", |h| json!({"if": [true, h, 2]})),
        ("if-else", |h| json!({"if": [false, 1, h]})),
        ("and-last", |h| json!({"and": [1, h]})),
        ("or-first", |h| json!({"or": [h, 1]})),
        ("map-expr", |h| json!({"map": [[1, 2], h]})),
        ("map-coll", |h| json!({"map": [h, 1]})),
        ("filter-pred", |h| json!({"filter": [[1, 2], h]})),
        ("reduce-expr", |h| json!({"reduce": [[1, 2, 3], h, 0]})),
        ("reduce-init", |h| json!({"reduce": [[1], 1, h]})),
        ("reduce-plus-current", |h| json!({"reduce": [[1, 2, 3], {"+": [h, {"var": "accumulator"}]}, 0]})),
        ("reduce-plus-acc", |h| json!({"reduce": [[1, 2, 3], {"+": [{"var": "current"}, h]}, 0]})),
        ("all-pred", |h| json!({"all": [[1, 2], h]})),
        ("some-elem", |h| json!({"some": [[h], true]})),
        ("none-coll", |h| json!({"none": [h, true]})),
        ("var-key", |h| json!({"var": [h]})),
        ("var-default", |h| json!({"var": ["nope", h]})),
        ("missing-key", |h| json!({"missing": [h]})),
        ("cmp-middle", |h| json!({"<": [0, h, 9]})),
        ("substr-len", |h| json!({"substr": ["hello", 0, h]})),
        ("nested-3", |h| json!({"+": [{"*": [{"-": [h]}, 1]}, 1]})),
        ("log", |h| json!({"log": h})),
    ]
}

/// Arity is enforced wherever an operation is evaluated, not only at the top of a rule:
/// every operator with an undocumented operand count (and a few well-formed look-alikes) in
/// every evaluation context.
pub fn c03_nested(ctx: &mut Ctx) {
    let data = json!({"a": 1, "current": 5, "accumulator": 6, "arr": [1, 2]});
    let ops = all_ops();
    let mut idx = 0u64;
    for (cname, mk) in contexts() {
        for op in ops.iter() {
            idx += 1;
            if !ctx.mine(idx) {
                continue;
            }
            for n in 0..=5usize {
                let documented = refsem::arity_ok(op, n) == Some(true);
                let mut args = valid_tuple(op, n);
                // the canonical spellings inside folds
                if *op == "var" && n >= 1 {
                    args[0] = json!(if cname.contains("acc") { "accumulator" } else { "current" });
                }
                let inner = json!({ *op: args });
                let rule = mk(inner);
                let (obs, mo) = ctx.check("c03.model", &rule, &data);
                if !documented {
                    ctx.mon("c03.arity").observed += 1;
                    // the model tells whether this position is evaluated; if so the call must fail
                    if let MOut::Err = mo {
                        ctx.mon("c03.arity").judged += 1;
                        if !matches!(obs.out, Outcome::Err(_)) {
                            ctx.violation("c03.arity", &format!("accepted-undocumented-count:{}:{}:in-{}", op, n, cname), &rule, &data, json!("an error"), obs.out.brief(), "an undocumented operand count was accepted inside another operation");
                        }
                    }
                }
                ctx.cell(&format!("nested-arity:{}", cname));
            }
            ctx.mark_nontrivial_key(&format!("c03:nested:{}:{}", cname, op));
        }
    }
}

/// The same two contexts deep (a quantifier element inside a map expression, a default inside a
/// fold step, ...): an implementation that validates once up front and then trusts a scope misses
/// exactly the positions its up-front pass does not walk.
pub fn c03_nested2(ctx: &mut Ctx) {
    let data = json!({"a": 1, "current": 5, "accumulator": 6, "arr": [1, 2]});
    let ops = all_ops();
    let cs = contexts();
    let mut idx = 0u64;
    for (c1, mk1) in cs.iter() {
        for (c2, mk2) in cs.iter() {
            if *c1 == "top" || *c2 == "top" {
                continue;
            }
            idx += 1;
            if !ctx.mine(idx) {
                continue;
            }
            for op in ops.iter() {
                for n in 0..=5usize {
                    if refsem::arity_ok(op, n) == Some(true) && n != 2 {
                        continue;
                    }
                    let documented = refsem::arity_ok(op, n) == Some(true);
                    let mut args = valid_tuple(op, n);
                    if *op == "var" && n >= 1 {
                        args[0] = json!(if c2.contains("acc") { "accumulator" } else { "current" });
                    }
                    let rule = mk1(mk2(json!({ *op: args })));
                    let (obs, mo) = ctx.check("c03.model", &rule, &data);
                    if !documented {
                        ctx.mon("c03.arity").observed += 1;
                        if let MOut::Err = mo {
                            ctx.mon("c03.arity").judged += 1;
                            if !matches!(obs.out, Outcome::Err(_)) {
                                ctx.violation("c03.arity", &format!("accepted-undocumented-count:{}:{}:in-{}-in-{}", op, n, c2, c1), &rule, &data, json!("an error"), obs.out.brief(), "an undocumented operand count was accepted two operations deep");
                            }
                        }
                    }
                }
            }
            ctx.cell("nested-arity:two-deep");
            ctx.mark_nontrivial_key(&format!("c03:nested2:{}:{}", c1, c2));
        }
    }
}

/// Multi-key objects that contain an operator key whose operands WOULD work (a "rule
/// look-alike") in every operand position of every operator: they are literals there too.
pub fn c02_lookalikes(ctx: &mut Ctx) {
    let data = json!({"arr": [1, 2, 3], "n": 5, "s": "héllo", "o": {"k": 1}, "t": true});
    let looks: Vec<Value> = vec![
        json!({"var": "arr", "note": "x"}), json!({"var": "n", "": 0}), json!({"var": "s", "var ": 1}), json!({"+": [1, 2], "comment": "sum"}), json!({"if": [true, "then", "else"], "comment": "x"}),
        json!({"?:": [true, 1, 2], "if": [true, 3, 4]}), json!({"merge": [[1], [2]], "z": 0}), json!({"log": "LEAK-look", "b": 1}), json!({"cat": ["a", "b"], "and": [1, 2]}), json!({"map": [[1], 1], "filter": [[1], 1]}),
        json!({"missing": ["zz"], "a": 1}), json!({"all": [[1], true], "x": 1}), json!({"reduce": [[1], 1, 0], "k": 2}), json!({"/": [1], "k": 2}),
    ];
    let ops = all_ops();
    let mut idx = 0u64;
    for op in ops.iter() {
        for n in 1..=3usize {
            if refsem::arity_ok(op, n) != Some(true) {
                continue;
            }
            for pos in 0..n {
                for l in looks.iter() {
                    idx += 1;
                    if !ctx.mine(idx) {
                        continue;
                    }
                    let mut args = valid_tuple(op, n);
                    args[pos] = l.clone();
                    let rule = json!({ *op: args });
                    let (obs, _) = ctx.check("c02.model", &rule, &data);
                    if obs.logs.iter().any(|x| x == "\"LEAK-look\"") {
                        ctx.violation("c02.identity", &format!("lookalike-executed:{}:{}", op, pos), &rule, &data, json!("no output"), json!(obs.logs), "a multi-key object with an operator key was executed in operand position");
                    }
                    ctx.cell("lookalike-operand");
                }
            }
        }
    }
    // bare (bracket-less) look-alike
    for op in ops.iter() {
        for l in looks.iter() {
            idx += 1;
            if ctx.mine(idx) {
                ctx.check("c02.model", &json!({ *op: l }), &data);
            }
        }
    }
    // programmatically built rules nested deeper than JSON text can be (Rust API callers):
    // dispatch must not change with depth
    for d in [100usize, 126, 127, 128, 129, 130, 160, 200, 256, 300] {
        idx += 1;
        if !ctx.mine(idx) {
            continue;
        }
        for (op, leaf) in [("!", json!({"var": "t"})), ("!!", json!({"var": "n"})), ("+", json!({"var": "n"})), ("cat", json!({"var": "s"})), ("merge", json!({"var": "n"})), ("-", json!({"var": "n"})), ("max", json!({"var": "n"})), ("log", json!({"var": "n"})), ("var", json!("n")), ("if", json!({"var": "n"})), ("and", json!({"var": "s"})), ("or", json!({"var": "n"}))] {
            for bracketed in [true, false] {
                let mut rule = leaf.clone();
                for _ in 0..d {
                    rule = if bracketed { json!({ op: [rule] }) } else { json!({ op: rule }) };
                }
                // `var` chains look their own result up again: keep them short-circuiting on data
                ctx.check("c02.model", &rule, &data);
            }
        }
        ctx.cell("deep-programmatic-rule");
        ctx.mark_nontrivial_key(&format!("c02:depth:{}", d));
    }
}
