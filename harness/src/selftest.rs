//! Oracle self-test: the reference semantics must agree with (1) ground truth recorded
//! once from a real JavaScript engine (truth/js_truth.json) and (2) the shared JsonLogic
//! cases in /repo/tests/data/tests.json. A failure here means the *oracle* is wrong:
//! the check is then inconclusive (exit 2), never a violation.

use crate::refsem::{self, MOut, SN};
use serde_json::Value;

fn repr(x: f64) -> String {
    if x.is_nan() {
        "NaN".into()
    } else if x == f64::INFINITY {
        "Infinity".into()
    } else if x == f64::NEG_INFINITY {
        "-Infinity".into()
    } else if x == 0.0 && x.is_sign_negative() {
        "-0".into()
    } else {
        format!("{:e}", x)
    }
}
fn parse_repr(s: &str) -> f64 {
    match s {
        "NaN" => f64::NAN,
        "Infinity" => f64::INFINITY,
        "-Infinity" => f64::NEG_INFINITY,
        "-0" => -0.0,
        x => x.parse::<f64>().unwrap_or(f64::NAN),
    }
}
fn same(a: f64, b: f64) -> bool {
    (a.is_nan() && b.is_nan()) || (a == b && (a != 0.0 || a.is_sign_negative() == b.is_sign_negative()))
}

pub fn run(truth_path: &str, tests_path: &str) -> i32 {
    let mut fails = 0u64;
    let mut checked = 0u64;
    let mut skipped = 0u64;
    let truth: Value = match std::fs::read_to_string(truth_path).ok().and_then(|t| serde_json::from_str(&t).ok()) {
        Some(v) => v,
        None => {
            println!("SELFTEST cannot read {}", truth_path);
            return 2;
        }
    };
    let vals: Vec<Value> = truth["values"].as_array().unwrap().iter().map(|t| serde_json::from_str(t.as_str().unwrap()).unwrap()).collect();
    let n = vals.len();
    for (name, op) in [("eq", "=="), ("seq", "==="), ("lt", "<"), ("le", "<="), ("gt", ">"), ("ge", ">=")] {
        let rows = truth[name].as_array().unwrap();
        for i in 0..n {
            let row = rows[i].as_str().unwrap().as_bytes();
            for j in 0..n {
                let want = match row[j] {
                    b'1' => true,
                    b'0' => false,
                    _ => {
                        skipped += 1;
                        continue;
                    }
                };
                let got = match op {
                    "==" => refsem::es_eq(&vals[i], &vals[j]),
                    "===" => Ok(refsem::es_strict(&vals[i], &vals[j])),
                    _ => refsem::es_rel(op, &vals[i], &vals[j]),
                };
                match got {
                    Ok(g) => {
                        checked += 1;
                        if g != want {
                            fails += 1;
                            if fails < 30 {
                                println!("SELFTEST MISMATCH {} {} {} : js={} model={}", vals[i], op, vals[j], want, g);
                            }
                        }
                    }
                    Err(_) => skipped += 1,
                }
            }
        }
    }
    let strs = truth["numeric_strings"].as_array().unwrap();
    let nums = truth["number"].as_array().unwrap();
    let pfs = truth["parsefloat"].as_array().unwrap();
    for (k, s) in strs.iter().enumerate() {
        let s = s.as_str().unwrap();
        for (label, want, got) in [
            ("Number", parse_repr(nums[k].as_str().unwrap()), refsem::string_to_number(s)),
            ("parseFloat", parse_repr(pfs[k].as_str().unwrap()), refsem::parse_float_js(s)),
        ] {
            match got {
                SN::Num(g) => {
                    checked += 1;
                    // the sign of a zero and of NaN is irrelevant to every property
                    if !(same(g, want) || (g == 0.0 && want == 0.0)) {
                        fails += 1;
                        if fails < 30 {
                            println!("SELFTEST MISMATCH {}({:?}) : js={} model={}", label, s, repr(want), repr(g));
                        }
                    }
                }
                SN::Unj(_) => skipped += 1,
            }
        }
    }
    for rec in truth["mod"].as_array().unwrap() {
        let a = parse_repr(rec[0].as_str().unwrap());
        let b = parse_repr(rec[1].as_str().unwrap());
        let want = parse_repr(rec[2].as_str().unwrap());
        checked += 1;
        let g = a % b;
        if !(same(g, want) || (g == 0.0 && want == 0.0)) {
            fails += 1;
            println!("SELFTEST MISMATCH {} % {} : js={} model={}", repr(a), repr(b), repr(want), repr(g));
        }
    }
    for (i, t) in truth["tostring"].as_array().unwrap().iter().enumerate() {
        match t.as_str() {
            Some(want) => {
                checked += 1;
                let g = refsem::to_str(&vals[i]);
                if g != want {
                    fails += 1;
                    println!("SELFTEST MISMATCH String({}) : js={:?} model={:?}", vals[i], want, g);
                }
            }
            None => skipped += 1,
        }
    }
    // shared JsonLogic cases
    let tests: Value = match std::fs::read_to_string(tests_path).ok().and_then(|t| serde_json::from_str(&t).ok()) {
        Some(v) => v,
        None => {
            println!("SELFTEST cannot read {}", tests_path);
            return 2;
        }
    };
    let mut shared = 0;
    for case in tests.as_array().unwrap() {
        if let Value::Array(c) = case {
            shared += 1;
            let (mo, _) = refsem::model(&c[0], &c[1]);
            match mo {
                MOut::Val(v) => {
                    checked += 1;
                    if !refsem::value_equiv(&v, &c[2]) && v != c[2] {
                        fails += 1;
                        println!("SELFTEST MISMATCH shared case {} on {} : expected {} model {}", c[0], c[1], c[2], v);
                    }
                }
                MOut::Err => {
                    fails += 1;
                    println!("SELFTEST MISMATCH shared case {} on {} : expected {} model Err", c[0], c[1], c[2]);
                }
                MOut::Unj(_) => skipped += 1,
            }
        }
    }
    println!("SELFTEST checked={} skipped_unjudged_or_excluded={} shared_cases={} mismatches={}", checked, skipped, shared, fails);
    if fails > 0 {
        2
    } else {
        0
    }
}
