//! C04 (only rule text is executed), C05 (if / ?: / and / or), C13 (map / filter / reduce),
//! C14 (all / some / none). These monitors lean on the effect channel: uniquely numbered
//! `log` probes and poisoned operands make evaluation order, multiplicity and laziness
//! observable in the captured fd-1 stream, which the generic judge compares with the
//! model's predicted trace.

use crate::corpus::*;
use crate::ctx::{type_name, Ctx};
use crate::observe::Outcome;
use crate::refsem::{self, MOut};
use serde_json::{json, Value};

fn var(k: &str) -> Value {
    json!({ "var": k })
}

struct Probes {
    n: u64,
}
impl Probes {
    fn truthy(&mut self) -> Value {
        self.n += 1;
        json!({ "log": format!("p{}", self.n) })
    }
    fn falsy(&mut self) -> Value {
        self.n += 1;
        json!({"!": [{"log": format!("p{}", self.n)}]})
    }
    fn wrap(&mut self, v: Value) -> Value {
        // logs a unique line, then yields v (via an eager operator only: merge + var-free indexing is
        // not available, so use substr/cat for strings and the !-forms for booleans)
        self.n += 1;
        match v {
            Value::String(s) => json!({"cat": [{"substr": [{"log": format!("p{}", self.n)}, 0, 0]}, s]}),
            Value::Bool(true) => json!({"!!": [{"log": format!("p{}", self.n)}]}),
            Value::Bool(false) => json!({"!": [{"log": format!("p{}", self.n)}]}),
            other => json!({"log": [other]}),
        }
    }
}

fn poison(r: &mut crate::rng::Rng) -> Value {
    match r.below(4) {
        0 => json!({"/": [1]}),
        1 => json!({"+": ["x"]}),
        2 => json!({"in": ["a", 5]}),
        _ => json!({"substr": ["s"]}),
    }
}

// =======================================================================================
// C05

/// Symbols of the operand alphabet.
fn c05_symbol(k: usize, p: &mut Probes, r: &mut crate::rng::Rng) -> (Value, &'static str) {
    match k {
        0 => (json!(false), "falsy"),
        1 => (json!(0), "falsy"),
        2 => (json!("0"), "truthy-corner"),
        3 => (json!([0]), "truthy-corner"),
        4 => (json!({}), "truthy-corner"),
        5 => (var("t"), "data-truthy"),
        6 => (var("f"), "data-falsy"),
        7 => (poison(r), "poison"),
        8 => (p.truthy(), "probe-truthy"),
        9 => (p.falsy(), "probe-falsy"),
        10 => (json!(""), "falsy"),
        11 => (json!([]), "falsy"),
        12 => (json!(null), "falsy"),
        14 => (json!({"if": [true, "then", "else"], "comment": "x"}), "truthy-corner"),
        15 => (json!({"and": [0], "or": [1], "log": "LEAK-sym"}), "truthy-corner"),
        16 => (json!({"var": "name.0"}), "data-truthy"),
        17 => (json!({"var": "name.-1"}), "data-truthy"),
        18 => (json!({"var": "list.1"}), "data-falsy"),
        19 => (json!({"var": ["deep.x.0", 1]}), "data-truthy"),
        20 => (json!({"var": "blank.0"}), "data-falsy"),
        21 => (json!({"var": "list.-1.k"}), "data-truthy"),
        22 => (json!({"/": [1, 0]}), "poison"),
        23 => (json!({"var": "t", "x": 1}), "truthy-corner"),
        _ => (json!("v"), "truthy"),
    }
}

fn c05_list(ctx: &mut Ctx, items: &[(Value, &'static str)], data: &Value) {
    let args: Vec<Value> = items.iter().map(|x| x.0.clone()).collect();
    let has_hazard = items.iter().any(|x| x.1 == "poison" || x.1.starts_with("probe"));
    let mut results: Vec<(&str, crate::observe::Obs, MOut)> = Vec::new();
    for op in ["if", "?:", "and", "or"] {
        if args.is_empty() && (op == "and" || op == "or") {
            ctx.check("c05.model", &json!({ op: [] }), data);
            continue;
        }
        let rule = json!({ op: args });
        let (obs, mo) = ctx.check("c05.model", &rule, data);
        // a poison that the model says is never reached must not surface
        if let (MOut::Val(_), Outcome::Err(_)) = (&mo, &obs.out) {
            ctx.cell(&format!("{}:poison-surfaced", op));
        }
        ctx.cell(&format!("{}:n={}:{}", op, args.len().min(7), match &mo {
            MOut::Val(_) => "value",
            MOut::Err => "err",
            MOut::Unj(_) => "unjudged",
        }));
        if has_hazard {
            ctx.mark_nontrivial(&rule, data);
        }
        results.push((op, obs, mo));
    }
    // `?:` is an exact alias of `if` (outcome and trace), no model needed
    if results.len() >= 2 {
        let (a, b) = (&results[0].1, &results[1].1);
        ctx.mon("c05.alias").observed += 1;
        ctx.mon("c05.alias").judged += 1;
        let same = match (&a.out, &b.out) {
            (Outcome::Ok(x), Outcome::Ok(y)) => x.to_string() == y.to_string(),
            (Outcome::Err(_), Outcome::Err(_)) => true,
            _ => false,
        };
        // probe numbers are shared, so the traces must be identical too
        if !same || a.logs != b.logs {
            ctx.violation("c05.alias", &format!("if-vs-ternary:n={}", args.len().min(7)), &json!({"?:": args}), data, json!({"if": a.out.brief(), "logs": a.logs}), json!({"?:": b.out.brief(), "logs": b.logs}), "?: does not behave exactly like if");
        }
    }
    // and / or return one of the operand VALUES (never a fresh boolean), judged without the model
    for (op, obs, _) in results.iter().skip(2) {
        if let Outcome::Ok(v) = &obs.out {
            ctx.mon("c05.value-not-boolean").observed += 1;
            // candidates: the values of literal operands
            let lits: Vec<String> = items.iter().filter(|x| matches!(x.1, "falsy" | "truthy" | "truthy-corner")).map(|x| x.0.to_string()).collect();
            if items.iter().all(|x| matches!(x.1, "falsy" | "truthy" | "truthy-corner")) {
                ctx.mon("c05.value-not-boolean").judged += 1;
                if !lits.contains(&v.to_string()) {
                    ctx.violation("c05.value-not-boolean", &format!("{}-returns-non-operand", op), &json!({ *op: args }), data, json!(lits), obs.out.brief(), "and / or returned something that is not one of its operand values");
                }
            }
        }
    }
}

fn c05_core(ctx: &mut Ctx) {
    let data = json!({"t": "yes", "f": 0, "deep": {"x": [1]}, "name": "bob", "list": [1, 0, {"k": "v"}], "blank": ""});
    let datas = [data.clone(), json!({"t": [0], "f": "", "name": "é😀", "list": ["a", "", {"k": [0]}], "deep": {"x": "z"}, "blank": ""}), json!({"t": {"a": 1}, "f": null, "name": "x", "list": [[1], [], {"k": 1}], "deep": {"x": [7]}, "blank": ""}), Value::Null];
    let mut p = Probes { n: 0 };
    let mut idx = 0u64;
    // all lists up to length 4 (quick: 3) over a 10-symbol alphabet
    let alpha: [usize; 12] = [0, 2, 3, 5, 6, 7, 8, 9, 11, 14, 16, 18];
    let maxlen = if ctx.thorough() { 4 } else { 3 };
    c05_list(ctx, &[], &data);
    let mut lists: Vec<Vec<usize>> = vec![vec![]];
    for _ in 0..maxlen {
        let mut next = Vec::new();
        for l in lists.iter().filter(|l| l.len() == lists.last().unwrap().len()) {
            for a in alpha.iter() {
                let mut m = l.clone();
                m.push(*a);
                next.push(m);
            }
        }
        for l in next.iter() {
            idx += 1;
            if ctx.mine(idx) {
                let mut rr = ctx.rng.clone();
                let items: Vec<(Value, &'static str)> = l.iter().map(|k| c05_symbol(*k, &mut p, &mut rr)).collect();
                let d = &datas[(idx % 4) as usize];
                c05_list(ctx, &items, d);
            }
        }
        lists.extend(next);
    }
    ctx.exhaustive_parts.push(format!("all operand lists of length 0..{} over a 12-symbol alphabet (falsy / corner-truthy incl. multi-key look-alike literals / data references incl. indices into strings and arrays / poison / logging probes), each as if, ?:, and, or", maxlen));
    // random longer lists and nesting
    let n = ctx.budget(6_000, 900_000);
    for i in 0..n {
        let len = 4 + ctx.rng.below(4);
        let mut rr = ctx.rng.clone();
        let mut items: Vec<(Value, &'static str)> = Vec::new();
        for _ in 0..len {
            let k = ctx.rng.below(24);
            let (v, cls) = c05_symbol(k, &mut p, &mut rr);
            // nested control flow as an operand
            if ctx.rng.chance(1, 5) {
                let inner_op = *ctx.rng.pick(&["if", "and", "or", "?:"]);
                let (v2, _) = c05_symbol(ctx.rng.below(24), &mut p, &mut rr);
                let (v3, _) = c05_symbol(ctx.rng.below(24), &mut p, &mut rr);
                items.push((json!({ inner_op: [v, v2, v3] }), "probe-nested"));
            } else if ctx.rng.chance(1, 8) {
                items.push((p.wrap(json!(ctx.rng.chance(1, 2))), "probe-wrapped"));
            } else {
                items.push((v, cls));
            }
        }

        // a branch that is a textual copy of its condition (or any operand of its neighbour), and
        // probes written without brackets: "the same subtree twice" must still be evaluated twice
        if ctx.rng.chance(1, 5) {
            let j = ctx.rng.below(items.len() - 1);
            items[j + 1] = items[j].clone();
        }
        if ctx.rng.chance(1, 5) {
            let j = ctx.rng.below(items.len());
            p.n += 1;
            items[j] = if ctx.rng.chance(1, 2) { (json!({"!!": {"log": format!("p{}", p.n)}}), "probe-truthy") } else { (json!({"!": {"log": format!("p{}", p.n)}}), "probe-falsy") };
            if ctx.rng.chance(1, 2) && j + 1 < items.len() {
                items[j + 1] = items[j].clone();
            }
        }
        let d = &datas[(i % 4) as usize];
        c05_list(ctx, &items, d);
        if i % 500 == 0 {
            ctx.sample(json!({"if": items.iter().map(|x| x.0.clone()).collect::<Vec<_>>()}));
        }
    }
}

// =======================================================================================
// C13

fn c13_case(ctx: &mut Ctx, rule: &Value, data: &Value, nontrivial: bool) -> Outcome {
    let (obs, mo) = ctx.check("c13.model", rule, data);
    let op = crate::ctx::top_op(rule);
    ctx.cell(&format!("{}:{}", op, match &mo {
        MOut::Val(_) => "value",
        MOut::Err => "err",
        MOut::Unj(_) => "unjudged",
    }));
    if nontrivial {
        ctx.mark_nontrivial(rule, data);
    }
    obs.out
}

fn c13_core(ctx: &mut Ctx) {
    let mut p = Probes { n: 0 };
    let outer = json!({"outer": "OUTER", "current": "outer-current", "accumulator": "outer-acc", "a": 1, "k": "x", "items": [3, 1, 2], "nested": [[1, 2], [3], []], "objs": [{"a": 1, "outer": "el"}, {"a": 2}], "mix": [0, "", null, [], [0], "0", {}, false, true, -0.0, 2]});
    let colls: Vec<Value> = vec![json!([]), json!([1]), json!([1, 2, 3]), json!([3, 1, 2]), json!(["a", "b", "c"]), json!([[1, 2], [3], []]), json!([{"a": 1}, {"a": 2}]), json!([0, "", null, [], [0], "0", {}, false]), var("items"), var("nested"), var("objs"), var("mix"), var("nope"), json!(null), json!({"merge": [[1], [2, [3]]]}), json!({"filter": [var("items"), {">": [var(""), 1]}]}), json!({"map": [var("items"), {"*": [var(""), 2]}]})];
    let bad_colls: Vec<Value> = vec![json!("abc"), json!(5), json!(true), json!({}), json!({"a": 1}), var("a"), var("k"), var("outer")];
    let map_exprs: Vec<Value> = vec![var(""), var("a"), var("outer"), var("current"), json!({"*": [var(""), 2]}), json!({"cat": [var(""), "!"]}), json!({"var": ["outer", "dflt"]}), json!({"if": [var(""), "T", "F"]}), json!({"merge": [var(""), [9]]}), json!({"map": [var(""), {"+": [var(""), 1]}]}), json!({"reduce": [var(""), {"+": [var("current"), var("accumulator")]}, 0]}), json!("const"), json!({"log": var("")}), json!({"/": [1, var("")]}), var("0"), var("-1")];
    let mut idx = 0u64;
    for c in colls.iter().chain(bad_colls.iter()) {
        for e in map_exprs.iter() {
            idx += 1;
            if !ctx.mine(idx) {
                continue;
            }
            let rule = json!({"map": [c, e]});
            let out = c13_case(ctx, &rule, &outer, true);
            // length preservation (no model): via the implementation's own evaluation of the collection
            let coll_val = match ctx.observe(c, &outer).out {
                Outcome::Ok(v) => Some(v),
                _ => None,
            };
            // `c` alone is a literal array when written literally (not evaluated): handle both
            let coll_len = match (c, &coll_val) {
                (Value::Array(a), _) => Some(a.len()),
                (_, Some(Value::Array(a))) => Some(a.len()),
                (_, Some(Value::Null)) => Some(0),
                _ => None,
            };
            ctx.mon("c13.map-length").observed += 1;
            if let (Outcome::Ok(Value::Array(r)), Some(n)) = (&out, coll_len) {
                ctx.mon("c13.map-length").judged += 1;
                if r.len() != n {
                    ctx.violation("c13.map-length", "length", &rule, &outer, json!({"length": n}), out.brief(), "map did not return one value per element");
                }
            }
            // filter: a subsequence of identical elements
            let frule = json!({"filter": [c, e]});
            let fout = c13_case(ctx, &frule, &outer, true);
            ctx.mon("c13.filter-subsequence").observed += 1;
            let elems: Option<Vec<Value>> = match (c, coll_val) {
                (Value::Array(a), _) => Some(a.clone()),
                (_, Some(Value::Array(a))) => Some(a),
                (_, Some(Value::Null)) => Some(vec![]),
                _ => None,
            };
            if let (Outcome::Ok(Value::Array(r)), Some(els)) = (&fout, elems) {
                ctx.mon("c13.filter-subsequence").judged += 1;
                let mut it = els.iter();
                let sub = r.iter().all(|x| it.any(|y| y.to_string() == x.to_string()));
                if !sub {
                    ctx.violation("c13.filter-subsequence", "subsequence", &frule, &outer, json!(els), fout.brief(), "filter result is not a subsequence of the (unchanged) input elements");
                }
            }
        }
    }
    // reduce: fold order with non-commutative expressions, scoping, the exact two-key context
    let red_exprs: Vec<Value> = vec![
        json!({"+": [var("current"), var("accumulator")]}),
        json!({"cat": [var("accumulator"), var("current")]}),
        json!({"-": [var("accumulator"), var("current")]}),
        json!({"merge": [var("accumulator"), [var("current")]]}),
        json!({"merge": [[var("current")], var("accumulator")]}),
        var(""),
        var("outer"),
        var("a"),
        json!({"var": ["outer", "no-outer"]}),
        json!({"missing": ["current", "accumulator", "outer", "a"]}),
        json!({"if": [var("current"), var("accumulator"), "stop"]}),
        json!({"cat": [var("accumulator.0"), var("current.a")]}),
        json!({"log": var("current")}),
        json!({"max": [var("current"), var("accumulator")]}),
    ];
    let inits: Vec<Value> = vec![json!(0), json!(""), json!([]), json!(null), var("a"), var("outer"), json!({"log": "init"}), json!({"+": [1, 2]}), var("nope")];
    for c in colls.iter().chain(bad_colls.iter().take(3)) {
        for e in red_exprs.iter() {
            for i in inits.iter() {
                idx += 1;
                if ctx.mine(idx) {
                    c13_case(ctx, &json!({"reduce": [c, e, i]}), &outer, true);
                }
            }
        }
    }
    // probes: one evaluation per element, in order; collection evaluated once
    for k in 0..6usize {
        idx += 1;
        if !ctx.mine(idx) {
            continue;
        }
        let els: Vec<Value> = (0..k).map(|i| json!(i)).collect();
        let coll = json!({"merge": [p.wrap(json!("")), els]});
        for op in ["map", "filter"] {
            c13_case(ctx, &json!({ op: [coll, {"log": {"cat": ["el-", var("")]}}] }), &outer, true);
        }
        c13_case(ctx, &json!({"reduce": [coll, {"log": {"cat": [var("accumulator"), "<", var("current")]}}, p.wrap(json!("I"))]}), &outer, true);
    }
    for e in [json!({"in": [1]}), json!({"substr": ["x"]}), json!({">": []}), json!({"var": [1, 2, 3]}), json!({"!": []}), json!({"reduce": [[1], 1]}), json!({"if": [{"/": [1]}, 1]}), json!({"log": "never"}), json!({"/": [1, 0]}), json!("const"), json!({"zz": [1]}), json!({"map": [[1], {"in": []}]})] {
        for op in ["map", "filter", "reduce"] {
            idx += 1;
            if ctx.mine(idx) {
                c13_null_is_empty(ctx, op, &e, Some(&json!({"log": "init"})), &outer);
                c13_null_is_empty(ctx, op, &e, None, &outer);
            }
        }
    }
    ctx.exhaustive_parts.push("25 collections x 16 element expressions (map, filter), 20 collections x 14 fold expressions x 9 initial values (reduce)".into());
    // random nesting
    let n = ctx.budget(5_000, 700_000);
    let mut g = RuleGen::new();
    g.ops = vec!["map", "filter", "reduce", "var", "merge", "cat", "+", "-", "if", ">", "!!", "log", "max"];
    g.probes = 6;
    g.poison = 2;
    for i in 0..n {
        let d = rand_data(&mut ctx.rng, 3, 0, &mut 0);
        let op = *ctx.rng.pick(&["map", "filter", "reduce"]);
        let coll = if ctx.rng.chance(1, 2) { Value::Array((0..ctx.rng.below(6)).map(|_| rand_value(&mut ctx.rng, 2)).collect()) } else { g.rule(&mut ctx.rng, &d, 2, 3) };
        let scope = if op == "reduce" { json!({"current": rand_value(&mut ctx.rng, 1), "accumulator": rand_value(&mut ctx.rng, 1)}) } else { rand_value(&mut ctx.rng, 2) };
        let mut e = g.rule(&mut ctx.rng, &scope, 2, 3);
        if ctx.rng.chance(1, 4) {
            e = everyday_step(ctx, &mut g, op);
        }
        let rule = if op == "reduce" { json!({ op: [coll, e, g.rule(&mut ctx.rng, &d, 1, 2)] }) } else { json!({ op: [coll, e] }) };
        let out = c13_case(ctx, &rule, &d, true);
        if i % 2 == 0 {
            c13_self_laws(ctx, op, &rule, &d, &out);
        }
        if i % 4 == 0 {
            let init = rule[op].get(2).cloned();
            c13_null_is_empty(ctx, op, &e, init.as_ref(), &d);
        }
        if i % 400 == 0 {
            ctx.sample(json!({"rule": rule, "data": d}));
        }
    }
}

/// The everyday shape of an element / step expression: a binary operator over the scope variables,
/// in every spelling of the reference (bare, bracketed, with a default that is a constant / logs / fails).
fn everyday_step(ctx: &mut Ctx, g: &mut RuleGen, op: &str) -> Value {
    let op2 = *ctx.rng.pick(&["+", "-", "*", "cat", "merge", "max", "min", "and", "or", "==", "<", "===", "in"]);
    let refer = |ctx: &mut Ctx, g: &mut RuleGen, key: &str| -> Value {
        match ctx.rng.below(6) {
            0 | 1 => json!({ "var": key }),
            2 => json!({ "var": [key] }),
            3 => json!({"var": [key, rand_scalar(&mut ctx.rng)]}),
            4 => json!({"var": [key, g.uprobe()]}),
            _ => json!({"var": [key, {"/": [1]}]}),
        }
    };
    if op == "reduce" {
        let (a, b) = (refer(ctx, g, "current"), refer(ctx, g, "accumulator"));
        if ctx.rng.chance(1, 2) { json!({ op2: [a, b] }) } else { json!({ op2: [b, a] }) }
    } else {
        let a = refer(ctx, g, "");
        let c = rand_scalar(&mut ctx.rng);
        if ctx.rng.chance(1, 2) { json!({ op2: [a, c] }) } else { json!({ op2: [c, a] }) }
    }
}

/// "A null collection is treated as empty" (needs no model): with the same expression and initial
/// value, a null collection and an empty array give the same outcome - the same value, or an error
/// in both cases - and the same lines, whether null / [] are written literally or computed. This
/// also holds where the statements leave the outcome itself open (an expression that is malformed
/// as read and never evaluated).
fn c13_null_is_empty(ctx: &mut Ctx, op: &str, e: &Value, init: Option<&Value>, d: &Value) {
    let data = json!({"outer": d, "nul": null, "empty": []});
    let mk = |coll: Value| -> Value {
        match init {
            Some(i) if op == "reduce" => json!({ op: [coll, e, i] }),
            _ if op == "reduce" => json!({ op: [coll, e, 0] }),
            _ => json!({ op: [coll, e] }),
        }
    };
    let variants = [mk(Value::Null), mk(json!([])), mk(json!({"var": "nul"})), mk(json!({"var": "empty"})), mk(json!({"var": "absent"}))];
    let obs: Vec<crate::observe::Obs> = variants.iter().map(|r| ctx.observe(r, &data)).collect();
    ctx.mon("c13.null-is-empty").observed += 1;
    ctx.mon("c13.null-is-empty").judged += 1;
    for k in 1..obs.len() {
        let same = match (&obs[0].out, &obs[k].out) {
            (Outcome::Ok(a), Outcome::Ok(b)) => a.to_string() == b.to_string(),
            (Outcome::Err(_), Outcome::Err(_)) => true,
            _ => false,
        } && obs[0].logs == obs[k].logs;
        if !same {
            ctx.violation("c13.null-is-empty", &format!("null-vs-empty:{}:{}", op, k), &variants[k], &data, json!({"with a literal null collection": obs[0].out.brief(), "lines": obs[0].logs}), json!({"out": obs[k].out.brief(), "lines": obs[k].logs}), "a null collection and an empty collection (literal / computed) do not behave alike");
            break;
        }
    }
}

/// Model-free laws: the operator must agree with doing the same thing step by step through the
/// implementation's own `apply` (collection first, then the element expression once per element with
/// the element / the {current, accumulator} pair as its data). Independent of `refsem`.
fn c13_self_laws(ctx: &mut Ctx, op: &str, rule: &Value, d: &Value, out: &Outcome) {
    stepwise_law(ctx, "c13", op, rule, d, out)
}

fn stepwise_law(ctx: &mut Ctx, prefix: &str, op: &str, rule: &Value, d: &Value, out: &Outcome) {
    let args = match rule.get(op) {
        Some(Value::Array(a)) => a.clone(),
        _ => return,
    };
    let mon_s = format!("{}.{}-stepwise", prefix, if op == "map" || op == "filter" { op } else { "reduce" });
    let mon = mon_s.as_str();
    ctx.mon(mon).observed += 1;
    // operand counts are checked when the rule is read, before anything is evaluated: a rule with a
    // malformed operation anywhere is an error as a whole, which stepping through it cannot see
    if crate::refsem::statically_invalid(rule) {
        return;
    }
    let mut step_lines: Vec<String> = Vec::new();
    let coll_obs = ctx.observe(&args[0], d);
    step_lines.extend(coll_obs.logs.iter().cloned());
    let els: Vec<Value> = match coll_obs.out {
        Outcome::Ok(Value::Array(a)) => a,
        Outcome::Ok(Value::Null) => vec![],
        _ => return, // error / non-collection: left to the model
    };
    // expected: Some(value) or None = "an error"; a panic in a step makes the law inapplicable
    let mut expected: Option<Value> = None;
    let mut failed = false;
    match op {
        "map" | "filter" => {
            let mut r = Vec::new();
            for el in els.iter() {
                let probe = if op == "map" { args[1].clone() } else { json!({"!!": [args[1].clone()]}) };
                let o = ctx.observe(&probe, el);
                step_lines.extend(o.logs.iter().cloned());
                match o.out {
                    Outcome::Ok(v) => {
                        if op == "map" {
                            r.push(v)
                        } else if v == Value::Bool(true) {
                            r.push(el.clone())
                        }
                    }
                    Outcome::Err(_) => {
                        failed = true;
                        break;
                    }
                    Outcome::Panic(_) => return,
                }
            }
            if !failed {
                expected = Some(Value::Array(r));
            }
        }
        _ => {
            // the initial value is evaluated against the outer data
            let init_obs = ctx.observe(&args[2], d);
            step_lines.extend(init_obs.logs.iter().cloned());
            let mut acc = match init_obs.out {
                Outcome::Ok(v) => Some(v),
                Outcome::Err(_) => None,
                Outcome::Panic(_) => return,
            };
            if let Some(mut a) = acc.take() {
                for el in els.iter() {
                    if crate::refsem::nested_deeper_than(&a, 100) {
                        return;
                    }
                    let o = ctx.observe(&args[1], &json!({"current": el, "accumulator": a}));
                    step_lines.extend(o.logs.iter().cloned());
                    match o.out {
                        Outcome::Ok(v) => a = v,
                        Outcome::Err(_) => {
                            failed = true;
                            break;
                        }
                        Outcome::Panic(_) => return,
                    }
                }
                if !failed {
                    expected = Some(a);
                }
            }
        }
    }
    ctx.mon(mon).judged += 1;
    let ok = match (&expected, out) {
        (Some(e), Outcome::Ok(v)) => crate::refsem::value_equiv(e, v),
        (None, Outcome::Err(_)) => true,
        _ => false,
    };
    if !ok {
        let exp = match &expected {
            Some(v) => json!({"ok": v}),
            None => json!({"err": "some step is an error"}),
        };
        ctx.violation(mon, &format!("stepwise:{}", op), rule, d, exp, out.brief(), "the operator disagrees with evaluating its collection and then its element expression step by step through the implementation itself");
        return;
    }
    // the lines printed: on success, the operator prints what its steps print (as a multiset: the
    // order between the collection and the initial value is not fixed by the statement)
    if expected.is_some() && crate::observe::capture_active() {
        let whole = ctx.observe(rule, d);
        let mut got = whole.logs.clone();
        got.sort();
        step_lines.sort();
        if got != step_lines {
            ctx.violation(mon, &format!("stepwise-lines:{}", op), rule, d, json!({"lines printed by the steps": step_lines.len()}), json!({"lines printed by the operator": got.len()}), "the operator does not print what its collection, initial value and element steps print when evaluated one by one through the implementation itself");
        }
    }
}

// =======================================================================================
// C14

fn c14_case(ctx: &mut Ctx, coll: &Value, pred: &Value, data: &Value, cls: &str) {
    let mut outs: Vec<Outcome> = Vec::new();
    let mut logs: Vec<Vec<String>> = Vec::new();
    for op in ["all", "some", "none"] {
        let rule = json!({ op: [coll, pred] });
        let (obs, mo) = ctx.check("c14.model", &rule, data);
        ctx.cell(&format!("{}:{}:{}", op, cls, match &mo {
            MOut::Val(v) => v.to_string(),
            MOut::Err => "err".into(),
            MOut::Unj(_) => "unjudged".into(),
        }));
        ctx.mark_nontrivial(&rule, data);
        outs.push(obs.out);
        logs.push(obs.logs);
    }
    // none = not some (outcome and effects), no model needed
    ctx.mon("c14.none-is-not-some").observed += 1;
    match (&outs[1], &outs[2]) {
        (Outcome::Ok(Value::Bool(s)), Outcome::Ok(Value::Bool(n))) => {
            ctx.mon("c14.none-is-not-some").judged += 1;
            if s == n {
                ctx.violation("c14.none-is-not-some", &format!("none-eq-some:{}", cls), &json!({"none": [coll, pred]}), data, json!({"some": s}), json!({"none": n}), "none is not the negation of some");
            }
        }
        (Outcome::Err(_), Outcome::Err(_)) => {
            ctx.mon("c14.none-is-not-some").judged += 1;
        }
        (a, b) => {
            ctx.mon("c14.none-is-not-some").judged += 1;
            ctx.violation("c14.none-is-not-some", &format!("none-some-differ-in-kind:{}", cls), &json!({"none": [coll, pred]}), data, a.brief(), b.brief(), "none and some do not succeed / fail together");
        }
    }
    // duality on non-empty input: all(p) = none(not p)
    let npred = json!({"!": [pred]});
    let dual = ctx.observe(&json!({"none": [coll, npred]}), data);
    ctx.mon("c14.all-none-duality").observed += 1;
    if let (Outcome::Ok(Value::Bool(a)), Outcome::Ok(Value::Bool(d))) = (&outs[0], &dual.out) {
        // empty collections make both `all` and `some` false, so the duality is stated for non-empty input
        let some_any = ctx.observe(&json!({"some": [coll, true]}), data);
        if let Outcome::Ok(Value::Bool(true)) = some_any.out {
            ctx.mon("c14.all-none-duality").judged += 1;
            if a != d {
                ctx.violation("c14.all-none-duality", &format!("duality:{}", cls), &json!({"all": [coll, pred]}), data, json!({"none(not p)": d}), json!({"all(p)": a}), "all(p) differs from none(not p) on a non-empty collection");
            }
        }
    }
}

fn c14_core(ctx: &mut Ctx) {
    let mut p = Probes { n: 0 };
    let data = json!({"a": 1, "z": 0, "items": [1, 2, 0], "s": "aé日😀", "empty": [], "str_empty": "", "n": null, "objs": [{"v": 1}, {"v": 0}], "ops": [{"log": "LEAK-el"}, {"var": "a"}], "t": true});
    let preds: Vec<Value> = vec![var("0"), json!({"===": [var("0"), 1]}), json!({"==": []}), json!({"var": [1, 2, 3]}), var("0.0"), var(""), json!({"!!": [var("")]}), json!({">": [var(""), 0]}), json!({"==": [var(""), "é"]}), json!({"in": [var(""), "aé"]}), var("v"), var("a"), json!(true), json!(false), json!({"log": var("")}), json!({"===": [var(""), 2]}), json!({"/": [1]}), json!([]), json!("0")];
    let mut colls: Vec<(Value, &'static str)> = vec![
        (json!([]), "empty-literal"),
        (json!(null), "null-literal"),
        (json!(""), "empty-string-literal"),
        (var("empty"), "empty-computed"),
        (var("n"), "null-computed"),
        (var("str_empty"), "empty-string-computed"),
        (var("nope"), "null-computed"),
        (json!([1, 2, 0]), "literal-array"),
        (json!([0, 0]), "literal-array"),
        (json!([var("a"), var("z"), {"+": [1, 1]}]), "literal-array-of-expressions"),
        (json!([var("z"), var("a")]), "literal-array-of-expressions"),
        (var("items"), "computed-array"),
        (var("objs"), "computed-array"),
        (var("ops"), "computed-array-of-operation-shaped-data"),
        (json!({"merge": [[1], [0]]}), "computed-array"),
        (json!("aé日😀"), "multibyte-string-literal"),
        (var("s"), "multibyte-string-computed"),
        (json!({"cat": ["é", "é", "x"]}), "multibyte-string-computed"),
        (json!("abc"), "ascii-string"),
        (json!(5), "bad-literal"),
        (json!(true), "bad-literal"),
        (var("a"), "bad-computed"),
        (var("t"), "bad-computed"),
        (json!({}), "bad-object"),
        (json!({"a": 1, "b": 2}), "bad-object"),
        (var(""), "bad-computed"),
    ];
    // elements of a literal collection that are themselves array literals are plain values:
    // nothing inside them is evaluated (only the elements written as expressions are)
    colls.push((json!([[{"var": "a"}], [{"log": "LEAK-nested"}]]), "literal-with-array-literal-elements"));
    colls.push((json!([[[{"/": [1]}]], [1, {"var": [1, 2, 3]}]]), "literal-with-array-literal-elements"));
    colls.push((json!([[{"var": "a"}, 7], {"var": "items"}, [[{"==": []}]]]), "literal-with-array-literal-elements"));
    colls.push((json!([{"k": {"var": "a"}, "j": 1}, [{"k": {"log": "LEAK-obj"}, "j": 2}]]), "literal-with-array-literal-elements"));
    // probes and poisons after the deciding position (literal arrays of expressions)
    for k in 0..4 {
        let mut els: Vec<Value> = Vec::new();
        for j in 0..4 {
            if j == k {
                els.push(json!({"!": [{"log": format!("decider-{}", p.n)}]})); // false
                p.n += 1;
            } else if j > k && j % 2 == 1 {
                els.push(json!({"/": [1]}));
            } else {
                els.push(p.truthy());
            }
        }
        colls.push((Value::Array(els), "literal-with-probes-and-poison-after-decider"));
    }
    let mut idx = 0u64;
    for (c, cls) in colls.iter() {
        for pr in preds.iter() {
            idx += 1;
            if ctx.mine(idx) {
                c14_case(ctx, c, pr, &data, cls);
            }
        }
    }
    // multi-byte strings: each char is one element (exhaustive over U up to length 3)
    for s in u_strings(3) {
        idx += 1;
        if !ctx.mine(idx) {
            continue;
        }
        for pr in [json!({"==": [var(""), "é"]}), json!({"in": [var(""), "a😀"]}), json!({"log": var("")})] {
            c14_case(ctx, &json!(s), &pr, &json!({ "s": s }), "u-string-literal");
            c14_case(ctx, &var("s"), &pr, &json!({ "s": s }), "u-string-computed");
        }
        // the number of elements seen equals the number of characters (counted through log lines)
        let (obs, _) = ctx.check("c14.model", &json!({"all": [var("s"), {"log": var("")}]}), &json!({ "s": s }));
        ctx.mon("c14.chars").observed += 1;
        if let Outcome::Ok(_) = obs.out {
            if crate::observe::capture_active() {
                ctx.mon("c14.chars").judged += 1;
                let want: Vec<String> = s.chars().map(|c| Value::String(c.to_string()).to_string()).collect();
                if obs.logs != want {
                    ctx.violation("c14.chars", "chars-not-bytes", &json!({"all": [var("s"), {"log": var("")}]}), &json!({ "s": s }), json!(want), json!(obs.logs), "a string collection was not taken character by character");
                }
            }
        }
    }
    ctx.exhaustive_parts.push("30 collections x 14 predicates x {all, some, none}; all strings of length 0..3 over the multi-byte alphabet".into());
    let n = ctx.budget(4_000, 600_000);
    let mut g = RuleGen::new();
    g.ops = vec!["var", "merge", "cat", "+", "if", ">", "!!", "log", "==", "!", "in", "and", "or", "filter", "map"];
    g.probes = 8;
    g.poison = 4;
    for i in 0..n {
        let d = rand_data(&mut ctx.rng, 3, 10, &mut 0);
        let coll = match ctx.rng.below(5) {
            0 => Value::Array((0..ctx.rng.below(6)).map(|_| g.rule(&mut ctx.rng, &d, 2, 2)).collect()),
            1 => Value::String(u_random(&mut ctx.rng, 0, 6)),
            2 => rand_scalar(&mut ctx.rng),
            _ => g.rule(&mut ctx.rng, &d, 2, 3),
        };
        let scope = rand_value(&mut ctx.rng, 2);
        let pred = g.rule(&mut ctx.rng, &scope, 2, 2);
        c14_case(ctx, &coll, &pred, &d, "random");
        if i % 400 == 0 {
            ctx.sample(json!({"collection": coll, "predicate": pred, "data": d}));
        }
    }
}

// =======================================================================================
// C04


fn c04_case(ctx: &mut Ctx, rule: &Value, data: &Value, channel: &str) {
    let (obs, mo) = ctx.check("c04.model", rule, data);
    ctx.cell(&format!("channel:{}:{}", channel, match &mo {
        MOut::Val(_) => "value",
        MOut::Err => "err",
        MOut::Unj(_) => "unjudged",
    }));
    // model-free: a line carrying a data-side marker can only come from interpreting data
    ctx.mon("c04.leak").observed += 1;
    ctx.mon("c04.leak").judged += 1;
    // (only for rules without any `log` of their own: a rule-side log may legitimately print data)
    if !obs.logs.is_empty() && !rule.to_string().contains("\"log\"") {
        ctx.violation("c04.leak", &format!("data-executed:{}:{}", channel, crate::ctx::top_op(rule)), rule, data, json!("no line carrying a data-side marker"), json!({"lines": obs.logs, "outcome": obs.out.brief()}), "a value read from the data was interpreted as logic (its log line appeared)");
    }
    ctx.mark_nontrivial(rule, data);
}

/// Substitution law for eager operators: replacing operands by references to their
/// precomputed values never changes the result.
fn c04_substitution(ctx: &mut Ctx, op: &str, operands: &[Value], data: &Value) {
    let rule = json!({ op: operands });
    let direct = ctx.observe(&rule, data);
    let mut vals: Vec<Value> = Vec::new();
    for o in operands {
        match ctx.observe(o, data).out {
            Outcome::Ok(v) => vals.push(v),
            _ => return, // an operand does not evaluate: the law says nothing
        }
    }
    let refs: Vec<Value> = (0..operands.len()).map(|i| json!({ "var": i })).collect();
    let rule2 = json!({ op: refs });
    let data2 = Value::Array(vals);
    let subst = ctx.observe(&rule2, &data2);
    ctx.mon("c04.substitution").observed += 1;
    ctx.mon("c04.substitution").judged += 1;
    let same = match (&direct.out, &subst.out) {
        (Outcome::Ok(a), Outcome::Ok(b)) => a.to_string() == b.to_string(),
        (Outcome::Err(_), Outcome::Err(_)) => true,
        _ => false,
    };
    if !same {
        ctx.violation_x("c04.substitution", &format!("substitution:{}", op), &rule, data, direct.out.brief(), subst.out.brief(), "replacing operands by references to their precomputed values changed the result", json!({"substituted_rule": rule2, "substituted_data": data2}));
    }
    ctx.cell(&format!("substitution:{}", op));
}

fn c04_core(ctx: &mut Ctx) {
    let markers: Vec<Value> = vec![
        json!({"log": "LEAK-1"}),
        json!({"var": "secret"}),
        json!({"+": ["x"]}),
        json!({"if": [true, {"log": "LEAK-2"}, 2]}),
        json!({"/": [1]}),
        json!({"cat": ["LEAK-", {"var": "secret"}]}),
        json!({"all": [[{"log": "LEAK-3"}], true]}),
        json!({"missing": ["secret"]}),
        json!({"var": ""}),
        json!({"!": [{"log": "LEAK-4"}]}),
    ];
    let mut idx = 0u64;
    for m in markers.iter() {
        let data = json!({"x": m, "secret": 424242, "items": [m, 1, m], "nested": {"deep": [[m]]}, "keys": ["x", "secret"], "one": [m], "s": "str", "zero": 0});
        // every "computed value" channel
        let channels: Vec<(&str, Value)> = vec![
            ("var", json!({"var": "x"})),
            ("var-int", json!({"var": ["items.0"]})),
            ("var-nested", json!({"var": "nested.deep.0.0"})),
            ("var-whole", json!({"var": ""})),
            ("var-default-literal", json!({"var": ["nope", m]})),
            ("var-default-computed", json!({"var": ["nope", {"var": "x"}]})),
            ("var-default-nested", json!({"var": ["nope", {"var": ["nope2", {"var": "x"}]}]})),
            ("if-result", json!({"if": [true, {"var": "x"}, 0]})),
            ("if-cond", json!({"if": [{"var": "x"}, "T", "F"]})),
            ("if-else", json!({"if": [false, 0, {"var": "x"}]})),
            ("and-result", json!({"and": [1, {"var": "x"}]})),
            ("or-result", json!({"or": [0, {"var": "x"}]})),
            ("map-elements", json!({"map": [{"var": "items"}, {"var": ""}]})),
            ("map-result-of-expr", json!({"map": [[1, 2], {"var": ["nope", "unused"]}]})),
            ("filter-elements", json!({"filter": [{"var": "items"}, {"var": ""}]})),
            ("filter-predicate-value", json!({"filter": [{"var": "items"}, true]})),
            ("reduce-elements", json!({"reduce": [{"var": "items"}, {"var": "current"}, 0]})),
            ("reduce-accumulator", json!({"reduce": [[1, 2], {"var": "accumulator"}, {"var": "x"}]})),
            ("reduce-initial", json!({"reduce": [[], {"var": "accumulator"}, {"var": "x"}]})),
            ("reduce-merge", json!({"reduce": [{"var": "items"}, {"merge": [{"var": "accumulator"}, [{"var": "current"}]]}, []]})),
            ("all-computed", json!({"all": [{"var": "items"}, true]})),
            ("some-computed", json!({"some": [{"var": "items"}, {"!!": [{"var": ""}]}]})),
            ("none-computed", json!({"none": [{"var": "one"}, {"===": [{"var": ""}, 424242]}]})),
            ("all-computed-merge", json!({"all": [{"merge": [{"var": "x"}, [{"var": "x"}]]}, {"!!": [{"var": ""}]}]})),
            ("some-literal-elements-are-code", json!({"some": [[{"var": "x"}, {"var": "zero"}], {"!!": [{"var": ""}]}]})),
            ("all-predicate-sees-marker", json!({"all": [{"var": "one"}, {"var": ""}]})),
            ("merge", json!({"merge": [{"var": "x"}, {"var": "items"}]})),
            ("cat", json!({"cat": [{"var": "x"}, {"var": "one"}]})),
            ("eq", json!({"==": [{"var": "x"}, "[object Object]"]})),
            ("strict-eq", json!({"===": [{"var": "x"}, {"var": "x"}]})),
            ("in", json!({"in": [{"var": "x"}, {"var": "items"}]})),
            ("not", json!({"!": [{"var": "x"}]})),
            ("log", json!({"log": [{"var": "s"}]})),
            ("missing-keys-from-data", json!({"missing": {"var": "keys"}})),
            ("missing_some-keys-from-data", json!({"missing_some": [1, {"var": "keys"}]})),
            ("key-from-data", json!({"var": [{"var": "keys.0"}]})),
            ("max-of-marker", json!({"max": [{"var": "x"}]})),
            ("plus-of-marker", json!({"+": [{"var": "one"}]})),
            ("substr-of-marker", json!({"substr": [{"var": "x"}, 0]})),
            ("less-than", json!({"<": [{"var": "x"}, {"var": "x"}]})),
        ];
        for (name, rule) in channels.iter() {
            idx += 1;
            if ctx.mine(idx) {
                c04_case(ctx, rule, &data, name);
                // the same, one level deeper in an eager and a lazy context
                c04_case(ctx, &json!({"merge": [rule, [rule]]}), &data, name);
                c04_case(ctx, &json!({"if": [rule, rule, rule]}), &data, name);
            }
        }
    }
    ctx.exhaustive_parts.push("10 operation-shaped marker values x 40 channels through which a data / computed value can reach an operator, each also nested in an eager and a lazy context".into());
    // substitution law: 22 eager operators x operand expressions
    let d = json!({"a": 3, "b": "4", "arr": [1, [2], "x"], "s": "héllo", "o": {"k": 1}, "n": null, "x": {"var": "a"}});
    let exprs: Vec<Value> = vec![var("a"), var("b"), var("arr"), var("s"), var("o"), var("n"), var("x"), json!({"+": [var("a"), 1]}), json!({"cat": [var("s"), var("b")]}), json!({"merge": [var("arr"), 0]}), json!({"if": [var("n"), 1, var("arr.1")]}), json!({"var": ["zz", var("x")]}), json!({"map": [var("arr"), var("")]}), json!(2), json!("lit"), json!([1, 2]), json!({"substr": [var("s"), 1, 2]}), json!({"!": [var("o")]}), json!({"-": [var("a")]})];
    for op in EAGER_OPS.iter() {
        for a in exprs.iter() {
            idx += 1;
            if !ctx.mine(idx) {
                continue;
            }
            if refsem::arity_ok(op, 1) == Some(true) && *op != "log" {
                c04_substitution(ctx, op, &[a.clone()], &d);
            }
            for b in exprs.iter() {
                if refsem::arity_ok(op, 2) == Some(true) {
                    c04_substitution(ctx, op, &[a.clone(), b.clone()], &d);
                }
                if refsem::arity_ok(op, 3) == Some(true) && ctx.rng.chance(1, 4) {
                    let c = ctx.rng.pick(&exprs).clone();
                    c04_substitution(ctx, op, &[a.clone(), b.clone(), c], &d);
                }
            }
        }
    }
    // random: data trees with markers everywhere, random rules reading them
    let n = ctx.budget(8_000, 1_200_000);
    let mut g = RuleGen::new();
    g.probes = 4;
    g.poison = 1;
    let mut mk = 0u64;
    for i in 0..n {
        let mut data = rand_data(&mut ctx.rng, 4, 45, &mut mk);
        if let Value::Object(m) = &mut data {
            m.insert("secret".into(), json!(424242));
        }
        let rule = g.rule(&mut ctx.rng, &data, 3, 3);
        // only rule-side text may carry LEAK (the generator never produces it)
        c04_case(ctx, &rule, &data, "random");
        if ctx.rng.chance(1, 3) {
            let op = *ctx.rng.pick(&EAGER_OPS);
            if op != "log" {
                let k = match op {
                    "!" | "!!" => 1,
                    "==" | "!=" | "===" | "!==" | "/" | "%" | "in" => 2,
                    "<" | "<=" | ">" | ">=" | "substr" => 2 + ctx.rng.below(2),
                    "-" => 1 + ctx.rng.below(2),
                    _ => 1 + ctx.rng.below(3),
                };
                let mut g2 = RuleGen::new();
                g2.probes = 0;
                g2.poison = 0;
                g2.ops.retain(|o| *o != "log");
                let operands: Vec<Value> = (0..k).map(|_| g2.rule(&mut ctx.rng, &data, 2, 2)).collect();
                // log-free operand expressions only (effects would legitimately differ)
                if !Value::Array(operands.clone()).to_string().contains("\"log\"") {
                    c04_substitution(ctx, op, &operands, &data);
                }
            }
        }
        // "the result equals that of the single-pass reference semantics": a fold over marker-laden
        // data must equal the same fold done step by step through `apply` (value, error-ness, lines)
        if i % 5 == 0 {
            let op = *ctx.rng.pick(&["map", "filter", "reduce"]);
            let e = everyday_step(ctx, &mut g, op);
            let coll = match ctx.rng.below(3) {
                0 => json!({"var": "items"}),
                1 => Value::Array((0..ctx.rng.below(4)).map(|_| rand_value(&mut ctx.rng, 1)).collect()),
                _ => g.rule(&mut ctx.rng, &data, 1, 2),
            };
            let mut d2 = data.clone();
            if let Value::Object(m) = &mut d2 {
                m.insert("items".into(), Value::Array((0..ctx.rng.below(5)).map(|k| if k % 2 == 0 { markers[k % markers.len()].clone() } else { rand_scalar(&mut ctx.rng) }).collect()));
            }
            let fold = if op == "reduce" { json!({ op: [coll, e, rand_scalar(&mut ctx.rng)] }) } else { json!({ op: [coll, e] }) };
            let out = ctx.observe(&fold, &d2).out;
            stepwise_law(ctx, "c04", op, &fold, &d2, &out);
        }
        if i % 600 == 0 {
            ctx.sample(json!({"rule": rule, "data": data}));
        }
    }
    let _ = type_name;
}

pub fn c04(ctx: &mut Ctx) {
    c04_core(ctx);
    c04_more(ctx);
    crate::props_sizes::c04(ctx);
}

pub fn c05(ctx: &mut Ctx) {
    c05_core(ctx);
    crate::props_sizes::c05(ctx);
    crate::props_far::c05(ctx);
}

pub fn c13(ctx: &mut Ctx) {
    c13_core(ctx);
    crate::props_sizes::c13(ctx);
    crate::props_far::c13(ctx);
}

pub fn c14(ctx: &mut Ctx) {
    c14_core(ctx);
    crate::props_sizes::c14(ctx);
}

/// Further channels (C04): every spelling of the whole-data reference and every lazy operator
/// that can *select* a data value, used as the collection / operand of every consumer.
pub fn c04_more(ctx: &mut Ctx) {
    let markers: Vec<Value> = vec![json!({"log": "LEAK-w"}), json!({"var": "secret"}), json!({"/": [1]}), json!({"==": []}), json!({"cat": ["LEAK-", "c"]}), json!({"if": [true, {"log": "LEAK-x"}]})];
    let whole: Vec<Value> = vec![json!({"var": []}), json!({"var": ""}), json!({"var": null}), json!({"var": [""]}), json!({"var": [null]}), json!({"var": [null, 1]}), json!({"var": ["", 1]})];
    let mut idx = 0u64;
    for m in markers.iter() {
        // the data itself is the collection: top level, and as the element of an outer map
        let arr = json!([m, 1, m, "guest"]);
        let nested = json!({"rows": [arr, [m]], "items": arr, "secret": 424242, "empty": [], "f": 0});
        for w in whole.iter() {
            for q in ["all", "some", "none"] {
                for pred in [json!({"!!": [{"var": ""}]}), json!({"===": [{"var": ""}, "LEAK-c"]}), json!(true), json!({"var": ""})] {
                    idx += 1;
                    if !ctx.mine(idx) {
                        continue;
                    }
                    c04_case(ctx, &json!({ q: [w, pred] }), &arr, "whole-data-spelling");
                    c04_case(ctx, &json!({"map": [{"var": "rows"}, { q: [w, pred] }]}), &nested, "whole-data-spelling-in-scope");
                }
            }
            idx += 1;
            if ctx.mine(idx) {
                for rule in [json!({"map": [w, {"var": ""}]}), json!({"filter": [w, true]}), json!({"reduce": [w, {"var": "current"}, 0]}), json!({"merge": [w, w]}), json!({"cat": [w]}), json!({"in": [1, w]}), json!({"==": [w, w]}), json!({"===": [w, w]}), json!({"!!": [w]}), json!({"if": [w, w, 0]}), json!({"or": [w, 1]}), json!({"var": ["nope", w]}), json!({"missing": w}), json!({"max": [w]})] {
                    c04_case(ctx, &rule, &arr, "whole-data-spelling");
                }
            }
        }
        // lazy operators that select a data value, as collections of every consumer
        let selectors: Vec<Value> = vec![
            json!({"if": [true, {"var": "items"}, []]}), json!({"if": [{"var": "f"}, [], {"var": "items"}]}), json!({"?:": [false, [1], {"var": "items"}]}), json!({"if": [{"var": "items"}]}),
            json!({"or": [{"var": "empty"}, {"var": "items"}]}), json!({"or": [{"var": "items"}, []]}), json!({"and": [1, {"var": "items"}]}), json!({"and": [{"var": "items"}, {"var": "items"}]}),
            json!({"filter": [{"var": "items"}, true]}), json!({"map": [{"var": "items"}, {"var": ""}]}), json!({"reduce": [[1], {"var": "accumulator"}, {"var": "items"}]}), json!({"merge": [{"var": "items"}, []]}),
            json!({"var": ["nope", {"var": "items"}]}), json!({"if": [true, {"if": [true, {"var": "items"}, [[1]]]}, [2]]}),
        ];
        for sel in selectors.iter() {
            idx += 1;
            if !ctx.mine(idx) {
                continue;
            }
            for q in ["all", "some", "none", "map", "filter"] {
                c04_case(ctx, &json!({ q: [sel, {"!!": [{"var": ""}]}] }), &nested, "selected-data-collection");
                c04_case(ctx, &json!({ q: [sel, {"===": [{"var": ""}, 424242]}] }), &nested, "selected-data-collection");
            }
            c04_case(ctx, &json!({"reduce": [sel, {"merge": [{"var": "accumulator"}, [{"var": "current"}]]}, []]}), &nested, "selected-data-collection");
            c04_case(ctx, &json!({"merge": [sel, sel]}), &nested, "selected-data-collection");
            c04_case(ctx, &json!({"in": [{"var": "items.0"}, sel]}), &nested, "selected-data-collection");
        }
    }
}
