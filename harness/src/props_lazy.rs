use crate::ctx::Ctx;
pub fn c04(_c: &mut Ctx) {}
pub fn c05(_c: &mut Ctx) {}
pub fn c13(_c: &mut Ctx) {}
pub fn c14(_c: &mut Ctx) {}
