//! Value monitors: C06 (truthiness), C07 / C08 (equality), C09 (relational),
//! C10 (arithmetic), C15 (merge / in), C16 (cat / substr).
//! Each workload = fixed hostile corpus (enumerated, sharded by index) + seeded random part.
//! Each case goes through the generic differential judge and through the laws the
//! statement itself names (which need no model).

use crate::corpus::*;
use crate::ctx::{type_name, Ctx};
use crate::observe::{self, Outcome};
use crate::refsem::{self, MOut};
use jsonlogic_rs::js_op;
use serde_json::{json, Value};

fn var(k: &str) -> Value {
    json!({ "var": k })
}
fn as_bool(o: &Outcome) -> Option<bool> {
    match o {
        Outcome::Ok(Value::Bool(b)) => Some(*b),
        _ => None,
    }
}
fn is_rule_shaped(v: &Value) -> bool {
    refsem::as_op(v).is_some()
}
/// Can `v` be written as a literal operand (i.e. is it not interpreted as an operation)?
fn literal_ok(v: &Value) -> bool {
    !is_rule_shaped(v)
}

// =======================================================================================
// C06

fn c06_corner(v: &Value) -> bool {
    match v {
        Value::Null | Value::Bool(_) => true,
        Value::Number(n) => n.as_f64().map(|f| f == 0.0 || f.abs() < 1e-300).unwrap_or(false),
        Value::String(s) => s.is_empty() || s.trim().is_empty() || s == "0" || s == "false" || s == "null" || s == "\u{0}",
        Value::Array(a) => a.len() <= 1,
        Value::Object(_) => true,
    }
}

fn c06_core(ctx: &mut Ctx) {
    let mut vals = v_all();
    for t in ["[[]]", "[0]", "[\"\"]", "[null]", "{\"\":0}", "-0.0", "0.0", "1e-320", "\"0\"", "\" \"", "\"false\"", "\"\\u0000\"", "[false]", "[[0]]", "0e0", "-0"] {
        vals.push(parse(t));
    }
    let mut idx = 0u64;
    for v in vals.iter() {
        idx += 1;
        if ctx.mine(idx) {
            c06_value(ctx, v);
        }
    }
    ctx.exhaustive_parts.push(format!("value corpus ({} values) x positions x routes", vals.len()));
    let n = ctx.budget(3_000, 400_000);
    for _ in 0..n {
        let v = rand_value(&mut ctx.rng, 3);
        c06_value(ctx, &v);
    }
}

fn c06_value(ctx: &mut Ctx, v: &Value) {
    let table = refsem::truthy(v);
    let data = json!({"v": v, "arr": [v]});
    // routes: how the value reaches the deciding position
    let mut routes: Vec<(&str, Value)> = vec![("data", var("v")), ("if-result", json!({"if": [true, var("v")]}))];
    if literal_ok(v) {
        routes.push(("literal", v.clone()));
    }
    match v {
        Value::Array(_) => routes.push(("merge-result", json!({"merge": [var("v")]}))),
        Value::String(_) => routes.push(("cat-result", json!({"cat": [var("v")]}))),
        _ => {}
    }
    routes.push(("default", json!({"var": ["nope", var("v")]})));
    let mut decisions: Vec<(String, bool)> = Vec::new();
    for (rname, e) in routes.iter() {
        // (position name, rule, how to read the decision)
        let positions: Vec<(&str, Value, fn(&Value, &Value) -> Option<bool>)> = vec![
            ("!!", json!({"!!": [e]}), |r, _| r.as_bool()),
            ("!", json!({"!": [e]}), |r, _| r.as_bool().map(|b| !b)),
            ("if", json!({"if": [e, "T", "F"]}), |r, _| r.as_str().map(|s| s == "T")),
            ("?:", json!({"?:": [e, "T", "F"]}), |r, _| r.as_str().map(|s| s == "T")),
            ("if-2nd", json!({"if": [false, "X", e, "T", "F"]}), |r, _| r.as_str().map(|s| s == "T")),
            ("and", json!({"and": [e, "MARK"]}), |r, _| Some(r.as_str() == Some("MARK"))),
            ("or", json!({"or": [e, "MARK"]}), |r, _| Some(r.as_str() != Some("MARK"))),
            ("all-lit", json!({"all": [[e], var("")]}), |r, _| r.as_bool()),
            ("some-lit", json!({"some": [[e], var("")]}), |r, _| r.as_bool()),
            ("none-lit", json!({"none": [[e], var("")]}), |r, _| r.as_bool().map(|b| !b)),
        ];
        for (pname, rule, read) in positions {
            let (obs, _mo) = ctx.check("c06.model", &rule, &data);
            let key = format!("{}:{}:{}", pname, rname, table);
            ctx.cell(&format!("pos:{}", pname));
            if let Outcome::Ok(r) = &obs.out {
                // "MARK" as the value itself would confuse and/or; skip that one string
                if v.as_str() == Some("MARK") {
                    continue;
                }
                if let Some(d) = read(r, v) {
                    ctx.mon("c06.table").observed += 1;
                    ctx.mon("c06.table").judged += 1;
                    if d != table {
                        ctx.violation("c06.table", &format!("table:{}:{}", pname, type_name(v)), &rule, &data, json!({"truthy": table}), json!({"decision": d, "result": r}), "deciding position disagrees with the JsonLogic truthiness table");
                    }
                    decisions.push((key, d));
                }
            }
        }
    }
    // positions that see the value as an element of a computed collection
    let coll_positions: Vec<(&str, Value, fn(&Value) -> Option<bool>)> = vec![
        ("filter", json!({"filter": [var("arr"), var("")]}), |r| r.as_array().map(|a| a.len() == 1)),
        ("all", json!({"all": [var("arr"), var("")]}), |r| r.as_bool()),
        ("some", json!({"some": [var("arr"), var("")]}), |r| r.as_bool()),
        ("none", json!({"none": [var("arr"), var("")]}), |r| r.as_bool().map(|b| !b)),
        ("map-!!", json!({"map": [var("arr"), {"!!": [var("")]}]}), |r| r.get(0).and_then(|x| x.as_bool())),
        ("reduce-if", json!({"reduce": [var("arr"), {"if": [var("current"), "T", "F"]}, null]}), |r| r.as_str().map(|s| s == "T")),
    ];
    for (pname, rule, read) in coll_positions {
        let (obs, _mo) = ctx.check("c06.model", &rule, &data);
        ctx.cell(&format!("pos:{}", pname));
        if let Outcome::Ok(r) = &obs.out {
            if let Some(d) = read(r) {
                ctx.mon("c06.table").observed += 1;
                ctx.mon("c06.table").judged += 1;
                if d != table {
                    ctx.violation("c06.table", &format!("table:{}:{}", pname, type_name(v)), &rule, &data, json!({"truthy": table}), json!({"decision": d, "result": r}), "deciding position disagrees with the JsonLogic truthiness table");
                }
                decisions.push((format!("{}:coll:{}", pname, table), d));
            }
        }
    }
    // positions whose predicate reaches the value through a path INTO the element
    // (index into an array / string element, field of an object element, negative index)
    let wrapped = json!({"els": [[v, "pad"], ["pad", v]], "objs": [{"k": v, "j": 1}], "strs": ["ab"], "one": [[v]]});
    let path_positions: Vec<(&str, Value, fn(&Value) -> Option<bool>)> = vec![
        ("filter-var-0", json!({"filter": [{"var": "one"}, {"var": "0"}]}), |r| r.as_array().map(|a| a.len() == 1)),
        ("filter-var-int0", json!({"filter": [{"var": "one"}, {"var": 0}]}), |r| r.as_array().map(|a| a.len() == 1)),
        ("filter-var--1", json!({"filter": [{"var": "one"}, {"var": "-1"}]}), |r| r.as_array().map(|a| a.len() == 1)),
        ("filter-var-k", json!({"filter": [{"var": "objs"}, {"var": "k"}]}), |r| r.as_array().map(|a| a.len() == 1)),
        ("all-var-0", json!({"all": [{"var": "one"}, {"var": "0"}]}), |r| r.as_bool()),
        ("some-var-k", json!({"some": [{"var": "objs"}, {"var": "k"}]}), |r| r.as_bool()),
        ("none-var-0", json!({"none": [{"var": "one"}, {"var": ["0"]}]}), |r| r.as_bool().map(|b| !b)),
        ("map-if-var-0", json!({"map": [{"var": "one"}, {"if": [{"var": "0"}, "T", "F"]}]}), |r| r.get(0).and_then(|x| x.as_str()).map(|s| s == "T")),
        ("if-var-path", json!({"if": [{"var": "els.0.0"}, "T", "F"]}), |r| r.as_str().map(|s| s == "T")),
        ("if-var-path-neg", json!({"if": [{"var": "els.1.-1"}, "T", "F"]}), |r| r.as_str().map(|s| s == "T")),
        ("and-var-path", json!({"and": [{"var": "objs.0.k"}, "MARK"]}), |r| Some(r.as_str() == Some("MARK"))),
        ("or-var-path", json!({"or": [{"var": "one.0.0"}, "MARK"]}), |r| Some(r.as_str() != Some("MARK"))),
    ];
    for (pname, rule, read) in path_positions {
        let (obs, _mo) = ctx.check("c06.model", &rule, &wrapped);
        ctx.cell(&format!("pos:{}", pname));
        if v.as_str() == Some("MARK") {
            continue;
        }
        if let Outcome::Ok(r) = &obs.out {
            if let Some(d) = read(r) {
                ctx.mon("c06.table").observed += 1;
                ctx.mon("c06.table").judged += 1;
                if d != table {
                    ctx.violation("c06.table", &format!("table:{}:{}", pname, type_name(v)), &rule, &wrapped, json!({"truthy": table}), json!({"decision": d, "result": r}), "deciding position disagrees with the JsonLogic truthiness table");
                }
                decisions.push((format!("{}:path:{}", pname, table), d));
            }
        }
    }
    // characters of strings are one-character strings: always truthy
    for rule in [json!({"filter": [{"var": "strs"}, {"var": "0"}]}), json!({"all": [{"var": "strs"}, {"var": "-1"}]}), json!({"if": [{"var": "strs.0.1"}, "T", "F"]}), json!({"!!": [{"var": "strs.0.0"}]})] {
        ctx.check("c06.model", &rule, &wrapped);
    }
    // cross-position consistency (needs no table)
    ctx.mon("c06.consistency").observed += 1;
    ctx.mon("c06.consistency").judged += 1;
    if let Some((_, d0)) = decisions.first() {
        if let Some((k, _)) = decisions.iter().find(|(_, d)| d != d0) {
            ctx.violation("c06.consistency", &format!("inconsistent:{}:{}", k.split(':').next().unwrap_or(""), type_name(v)), &json!({"value": v}), &data, json!("all deciding positions agree"), json!(decisions.iter().map(|(k, d)| format!("{}={}", k, d)).collect::<Vec<_>>()), "two deciding positions disagree on the same value");
        }
    }
    ctx.cell(&format!("type:{}:{}", type_name(v), table));
    if c06_corner(v) {
        ctx.mark_nontrivial_key(&format!("c06:{}", v));
    }
    ctx.sample(json!({"value": v, "truthy_by_table": table, "positions_observed": decisions.len()}));
}

// =======================================================================================
// C07 / C08 / C09: shared pair machinery

struct PairOut {
    via_data: Option<bool>,
}

fn pair_rule(op: &str, ctx: &mut Ctx, a: &Value, b: &Value, monitor: &str) -> PairOut {
    let data = json!({"a": a, "b": b});
    let rule = json!({ op: [var("a"), var("b")] });
    let (obs, _) = ctx.check(monitor, &rule, &data);
    let via_data = as_bool(&obs.out);
    if literal_ok(a) && literal_ok(b) {
        let rule2 = json!({ op: [a, b] });
        let (obs2, _) = ctx.check(monitor, &rule2, &Value::Null);
        let lit = as_bool(&obs2.out);
        if lit != via_data {
            ctx.violation(monitor, &format!("literal-vs-data:{}", op), &rule2, &data, json!({"via_data": via_data}), json!({"literal": lit}), "same operands give different results as literals and via var");
        }
    }
    PairOut { via_data }
}

fn helper_bool(f: fn(&Value, &Value) -> bool, a: &Value, b: &Value) -> Result<bool, String> {
    let (a2, b2) = (a.clone(), b.clone());
    observe::catch(move || f(&a2, &b2))
}

fn pair_nontrivial(a: &Value, b: &Value) -> bool {
    a.to_string() != b.to_string() && !(a.is_null() != b.is_null() && (a.is_null() || b.is_null()))
}

fn pairs_corpus(ctx: &mut Ctx, f: &mut dyn FnMut(&mut Ctx, &Value, &Value)) {
    let v = v_all();
    let mut idx = 0u64;
    for a in v.iter() {
        for b in v.iter() {
            idx += 1;
            if ctx.mine(idx) {
                f(ctx, a, b);
            }
        }
    }
    ctx.exhaustive_parts.push(format!("corpus square V x V ({} ordered pairs)", v.len() * v.len()));
    // S x numeric V
    let s = s_numeric_strings();
    let nums = v_numbers();
    let extra = [Value::Null, json!(true), json!(false), json!([1]), json!([]), json!("1"), json!("")];
    for st in s.iter() {
        let sv = Value::String(st.clone());
        for n in nums.iter().chain(extra.iter()) {
            idx += 1;
            if ctx.mine(idx) && (ctx.thorough() || idx % 5 == ctx.seed % 5) {
                f(ctx, &sv, n);
                f(ctx, n, &sv);
            }
        }
    }
}

/// Every numeric string of the corpora against the exact number it denotes and that number's
/// two neighbouring doubles: pins the string-to-number conversion to the last bit.
fn denoted_number_pairs(ctx: &mut Ctx, f: &mut dyn FnMut(&mut Ctx, &Value, &Value)) {
    let mut strs: Vec<String> = STR_VALUES.iter().map(|s| s.to_string()).collect();
    strs.extend(s_numeric_strings());
    for t in ["0x1000000000000081", "0x10000000000000c1", "0xfffffffffffff801", "0b100000000000000000000000000000000000000000000000000001", "0o400000000000000000001", "0x7fffffffffffffff", "0xffffffffffffffff", "0x20000000000000000000000001",
              "9007199254740993", "9007199254740995", "0.1", "0.30000000000000004", "1.7976931348623157e308", "4.9e-324", "2.2250738585072011e-308", "123456789012345678901234567890", "0.000000000000000000000000000000000000001e39", "1e23", "8.41e21", "2.2250738585072012e-308", "5e-324"] {
        strs.push(t.to_string());
    }
    let mut idx = 0u64;
    for st in strs.iter() {
        idx += 1;
        if !ctx.mine(idx) {
            continue;
        }
        if let refsem::SN::Num(x) = refsem::string_to_number(st) {
            if !x.is_finite() {
                continue;
            }
            let bits = x.to_bits();
            let mut cands = vec![x];
            if x != 0.0 {
                cands.push(f64::from_bits(bits.wrapping_add(1)));
                cands.push(f64::from_bits(bits.wrapping_sub(1)));
            }
            for c in cands {
                if !c.is_finite() {
                    continue;
                }
                // spell the number as serde_json would read it back (integers as integers)
                let nv = match refsem::mk_number(c) {
                    MOut::Val(v) => v,
                    _ => continue,
                };
                let sv = json!(st);
                f(ctx, &sv, &nv);
                f(ctx, &nv, &sv);
                f(ctx, &json!([st]), &nv);
            }
            ctx.cell("denoted-number-pairs");
        }
    }
}

/// Pairs of adjacent doubles (1 and 2 ulp apart) around every finite number of the corpus and
/// around results of float arithmetic: a tolerance anywhere in the comparison operators shows here.
fn neighbour_pairs(ctx: &mut Ctx, f: &mut dyn FnMut(&mut Ctx, &Value, &Value)) {
    let mut xs: Vec<f64> = v_numbers().iter().filter_map(|v| v.as_f64()).collect();
    xs.extend([0.1 + 0.2, 0.3, 1.0 / 3.0, 2.0 / 3.0, 1.1 * 1.1, 1.5, 100.1, 1e-5, 123456.789, 0.5, 1.0000000000000002, 4.35, 4.35 * 100.0, 1e16 + 2.0, 2.5e-308, 1e-300]);
    let mut idx = 0u64;
    for x in xs {
        idx += 1;
        if !ctx.mine(idx) || !x.is_finite() || x == 0.0 {
            continue;
        }
        for s in [1.0f64, -1.0] {
            let y = s * x;
            let b = y.to_bits();
            for d in [1u64, 2, 3] {
                for z in [f64::from_bits(b.wrapping_add(d)), f64::from_bits(b.wrapping_sub(d))] {
                    if !z.is_finite() || z.is_nan() || (z < 0.0) != (y < 0.0) {
                        continue;
                    }
                    let (a, c) = match (refsem::mk_number(y), refsem::mk_number(z)) {
                        (MOut::Val(a), MOut::Val(c)) => (a, c),
                        _ => continue,
                    };
                    f(ctx, &a, &c);
                    f(ctx, &c, &a);
                    // and as results of arithmetic (values that only arise as intermediate results)
                    ctx.check("neighbours.model", &json!({"===": [{"+": [a.clone(), 0]}, c.clone()]}), &Value::Null);
                    ctx.check("neighbours.model", &json!({"<=": [c.clone(), {"*": [a.clone(), 1]}]}), &Value::Null);
                    ctx.check("neighbours.model", &json!({"==": [{"-": [a.clone(), 0]}, {"/": [c.clone(), 1]}]}), &Value::Null);
                    ctx.check("neighbours.model", &json!({">=": [0, a.clone(), c.clone()]}), &Value::Null);
                }
            }
        }
        ctx.cell("neighbour-doubles");
    }
    for (e1, e2) in [(json!({"+": [0.1, 0.2]}), json!(0.3)), (json!({"*": [1.1, 1.1]}), json!(1.21)), (json!({"/": [1, 3]}), json!(0.3333333333333333)), (json!({"-": [0.3, 0.1]}), json!(0.2)), (json!({"*": [4.35, 100]}), json!(435))] {
        for op in ["==", "!=", "===", "!==", "<", "<=", ">", ">="] {
            ctx.check("neighbours.model", &json!({ op: [e1, e2] }), &Value::Null);
            ctx.check("neighbours.model", &json!({ op: [e2, e1] }), &Value::Null);
        }
        ctx.check("neighbours.model", &json!({"<=": [0, e1, e2]}), &Value::Null);
        ctx.check("neighbours.model", &json!({"in": [e1, [e2]]}), &Value::Null);
    }
}

/// Values nested deeper than JSON text can be (built in memory: Rust API callers) and values
/// holding many containers: the string form / equality must not depend on depth or on how many
/// arrays were already visited.
fn deep_and_wide_values(ctx: &mut Ctx, f: &mut dyn FnMut(&mut Ctx, &Value, &Value)) {
    let mut idx = 0u64;
    for d in [1usize, 2, 31, 32, 33, 63, 64, 65, 100, 126, 127, 128, 129, 130, 200, 300] {
        idx += 1;
        if !ctx.mine(idx) {
            continue;
        }
        for leaf in [json!(1), json!("x"), json!(true), json!(1.5)] {
            let mut v = leaf.clone();
            for _ in 0..d {
                v = json!([v]);
            }
            for other in [leaf.clone(), json!(refsem::to_str(&leaf)), json!(1), json!("1"), json!(true), json!(""), json!(0), json!([leaf.clone()])] {
                f(ctx, &v, &other);
                f(ctx, &other, &v);
            }
            let two = json!(["x", v.clone()]);
            f(ctx, &two, &json!(format!("x,{}", refsem::to_str(&leaf))));
        }
        ctx.cell("deep-programmatic-value");
    }
    for n in [3usize, 100, 127, 128, 129, 255, 256, 257, 300, 1000] {
        idx += 1;
        if !ctx.mine(idx) {
            continue;
        }
        let table = Value::Array((0..n).map(|i| json!([i])).collect());
        let rows = Value::Array((0..n).map(|i| json!([i, [format!("r{}", i)]])).collect());
        let t1 = refsem::to_str(&table);
        let t2 = refsem::to_str(&rows);
        f(ctx, &table, &json!(t1));
        f(ctx, &rows, &json!(t2));
        f(ctx, &json!([table.clone(), [1]]), &json!(format!("{},1", t1)));
        ctx.cell("many-arrays-in-one-value");
    }
}

fn rand_pair(ctx: &mut Ctx) -> (Value, Value) {
    let r = &mut ctx.rng;
    let a = rand_value(r, 2);
    let b = match r.below(6) {
        0 => a.clone(),
        1 => Value::String(refsem::to_str(&a)),
        2 => {
            // a numeric string near a
            match refsem::to_number(&a) {
                refsem::SN::Num(f) if f.is_finite() => {
                    let pads = ["", " ", "\n", "\t"];
                    Value::String(format!("{}{}{}", r.pick(&pads), f, r.pick(&pads)))
                }
                _ => rand_value(r, 2),
            }
        }
        3 => json!([a.clone()]),
        _ => rand_value(r, 2),
    };
    if r.chance(1, 2) {
        (a, b)
    } else {
        (b, a)
    }
}

// ---------------------------------------------------------------------------------------
// C07

fn c07_pair(ctx: &mut Ctx, a: &Value, b: &Value) {
    let eq = pair_rule("==", ctx, a, b, "c07.model").via_data;
    let ne = pair_rule("!=", ctx, a, b, "c07.model").via_data;
    let data = json!({"a": a, "b": b});
    let data_sw = json!({"a": b, "b": a});
    let rule = json!({"==": [var("a"), var("b")]});
    // negation law
    ctx.mon("c07.negation").observed += 1;
    if let (Some(e), Some(n)) = (eq, ne) {
        ctx.mon("c07.negation").judged += 1;
        if e == n {
            ctx.violation("c07.negation", &format!("ne-not-negation:{},{}", type_name(a), type_name(b)), &rule, &data, json!("!= is the negation of =="), json!({"==": e, "!=": n}), "!= is not the exact negation of ==");
        }
    }
    // symmetry law (observe the swapped pair directly)
    let sw = as_bool(&ctx.observe(&rule, &data_sw).out);
    ctx.mon("c07.symmetry").observed += 1;
    if let (Some(e), Some(s)) = (eq, sw) {
        ctx.mon("c07.symmetry").judged += 1;
        if e != s {
            ctx.violation("c07.symmetry", &format!("asymmetric:{},{}", type_name(a), type_name(b)), &rule, &data, json!("eq(a,b) = eq(b,a)"), json!({"a==b": e, "b==a": s}), "== is not symmetric on this pair");
        }
    }
    // helper vs operator, and helper vs model
    ctx.mon("c07.helper").observed += 1;
    match (helper_bool(js_op::abstract_eq, a, b), helper_bool(js_op::abstract_ne, a, b)) {
        (Ok(he), Ok(hn)) => {
            ctx.mon("c07.helper").judged += 1;
            if Some(he) != eq || Some(hn) != ne {
                ctx.violation("c07.helper", &format!("helper-vs-operator:{},{}", type_name(a), type_name(b)), &rule, &data, json!({"operator ==": eq, "operator !=": ne}), json!({"abstract_eq": he, "abstract_ne": hn}), "js_op helper disagrees with the operator");
            }
        }
        (x, y) => {
            ctx.violation("c07.helper", "helper-panic", &rule, &data, json!("a boolean"), json!({"abstract_eq": format!("{:?}", x), "abstract_ne": format!("{:?}", y)}), "public coercion helper panicked");
        }
    }
    if let Some(e) = eq {
        ctx.cell(&format!("{}=={}:{}", type_name(a), type_name(b), e));
    }
    if pair_nontrivial(a, b) {
        ctx.mark_nontrivial(&json!("c07"), &data);
    }
    if eq == Some(true) && pair_nontrivial(a, b) {
        ctx.sample(json!({"a": a, "b": b, "==": eq, "!=": ne}));
    }
}

fn c07_core(ctx: &mut Ctx) {
    neighbour_pairs(ctx, &mut |c, a, b| c07_pair(c, a, b));
    deep_and_wide_values(ctx, &mut |c, a, b| c07_pair(c, a, b));
    pairs_corpus(ctx, &mut |c, a, b| c07_pair(c, a, b));
    denoted_number_pairs(ctx, &mut |c, a, b| c07_pair(c, a, b));
    let n = ctx.budget(6_000, 1_200_000);
    for _ in 0..n {
        let (a, b) = rand_pair(ctx);
        c07_pair(ctx, &a, &b);
    }
}

// ---------------------------------------------------------------------------------------
// C08

fn c08_pair(ctx: &mut Ctx, a: &Value, b: &Value) {
    let seq = pair_rule("===", ctx, a, b, "c08.model").via_data;
    let sne = pair_rule("!==", ctx, a, b, "c08.model").via_data;
    let data = json!({"a": a, "b": b});
    let rule = json!({"===": [var("a"), var("b")]});
    ctx.mon("c08.negation").observed += 1;
    if let (Some(e), Some(n)) = (seq, sne) {
        ctx.mon("c08.negation").judged += 1;
        if e == n {
            ctx.violation("c08.negation", &format!("sne-not-negation:{},{}", type_name(a), type_name(b)), &rule, &data, json!("!== is the negation of ==="), json!({"===": e, "!==": n}), "!== is not the exact negation of ===");
        }
    }
    // implication: === implies ==
    let eq = as_bool(&ctx.observe(&json!({"==": [var("a"), var("b")]}), &data).out);
    ctx.mon("c08.implies-eq").observed += 1;
    if let (Some(true), Some(e)) = (seq, eq) {
        ctx.mon("c08.implies-eq").judged += 1;
        if !e {
            ctx.violation("c08.implies-eq", &format!("seq-without-eq:{},{}", type_name(a), type_name(b)), &rule, &data, json!("=== implies =="), json!({"===": true, "==": e}), "=== holds but == does not");
        }
    }
    // symmetry
    let sw = as_bool(&ctx.observe(&rule, &json!({"a": b, "b": a})).out);
    ctx.mon("c08.symmetry").observed += 1;
    if let (Some(e), Some(s)) = (seq, sw) {
        ctx.mon("c08.symmetry").judged += 1;
        if e != s {
            ctx.violation("c08.symmetry", &format!("asymmetric:{},{}", type_name(a), type_name(b)), &rule, &data, json!("seq(a,b) = seq(b,a)"), json!({"a===b": e, "b===a": s}), "=== is not symmetric");
        }
    }
    // helper with distinct instances (the same-reference shortcut is documented and not judged)
    ctx.mon("c08.helper").observed += 1;
    match (helper_bool(js_op::strict_eq, a, b), helper_bool(js_op::strict_ne, a, b)) {
        (Ok(he), Ok(hn)) => {
            ctx.mon("c08.helper").judged += 1;
            if Some(he) != seq || Some(hn) != sne {
                ctx.violation("c08.helper", &format!("helper-vs-operator:{},{}", type_name(a), type_name(b)), &rule, &data, json!({"operator ===": seq, "operator !==": sne}), json!({"strict_eq": he, "strict_ne": hn}), "js_op helper disagrees with the operator");
            }
        }
        (x, y) => ctx.violation("c08.helper", "helper-panic", &rule, &data, json!("a boolean"), json!({"strict_eq": format!("{:?}", x), "strict_ne": format!("{:?}", y)}), "public coercion helper panicked"),
    }
    // the same data slot on both sides: how an identity shortcut could leak through the rule interface
    let same = json!({"===": [var("a"), var("a")]});
    let (obs, _) = ctx.check("c08.model", &same, &data);
    let _ = obs;
    let same2 = json!({"===": [var(""), var("")]});
    ctx.check("c08.model", &same2, a);
    if let Some(e) = seq {
        ctx.cell(&format!("{}==={}:{}", type_name(a), type_name(b), e));
    }
    let nontrivial = type_name(a) == type_name(b) || (a.is_number() && b.is_number());
    if nontrivial {
        ctx.mark_nontrivial(&json!("c08"), &data);
        if seq == Some(true) && a.to_string() != b.to_string() {
            ctx.sample(json!({"a": a, "b": b, "===": seq}));
        }
    }
}

fn c08_core(ctx: &mut Ctx) {
    neighbour_pairs(ctx, &mut |c, a, b| c08_pair(c, a, b));
    deep_and_wide_values(ctx, &mut |c, a, b| c08_pair(c, a, b));
    // number spellings of the same double, integers around 2^53 and 2^63
    let spell = ["1", "1.0", "1e0", "1E0", "10e-1", "0", "-0.0", "0.0", "0e5", "9007199254740992", "9007199254740993", "9007199254740992.0", "9223372036854775807", "9223372036854775808", "9223372036854775808.0", "9.223372036854775807e18", "18446744073709551615", "1.8446744073709552e19", "-9223372036854775808", "-9223372036854775808.0"];
    let sv: Vec<Value> = spell.iter().map(|t| parse(t)).collect();
    let mut idx = 0u64;
    for a in sv.iter() {
        for b in sv.iter() {
            idx += 1;
            if ctx.mine(idx) {
                c08_pair(ctx, a, b);
            }
        }
    }
    pairs_corpus(ctx, &mut |c, a, b| c08_pair(c, a, b));
    let n = ctx.budget(5_000, 1_000_000);
    for _ in 0..n {
        let (a, b) = rand_pair(ctx);
        c08_pair(ctx, &a, &b);
    }
}

// ---------------------------------------------------------------------------------------
// C09

const RELS: [&str; 4] = ["<", "<=", ">", ">="];
fn mirror(op: &str) -> &'static str {
    match op {
        "<" => ">",
        "<=" => ">=",
        ">" => "<",
        _ => "<=",
    }
}
fn rel_helper(op: &str) -> fn(&Value, &Value) -> bool {
    match op {
        "<" => js_op::abstract_lt,
        "<=" => js_op::abstract_lte,
        ">" => js_op::abstract_gt,
        _ => js_op::abstract_gte,
    }
}

fn c09_pair(ctx: &mut Ctx, a: &Value, b: &Value) {
    let data = json!({"a": a, "b": b});
    let data_sw = json!({"a": b, "b": a});
    let mut res: Vec<Option<bool>> = Vec::new();
    for op in RELS.iter() {
        let r = pair_rule(op, ctx, a, b, "c09.model").via_data;
        res.push(r);
        let rule = json!({ *op: [var("a"), var("b")] });
        // mirror law: a op b == b mirror(op) a
        let m = as_bool(&ctx.observe(&json!({ mirror(op): [var("a"), var("b")] }), &data_sw).out);
        ctx.mon("c09.mirror").observed += 1;
        if let (Some(x), Some(y)) = (r, m) {
            ctx.mon("c09.mirror").judged += 1;
            if x != y {
                ctx.violation("c09.mirror", &format!("mirror:{}:{},{}", op, type_name(a), type_name(b)), &rule, &data, json!(format!("a {} b equals b {} a", op, mirror(op))), json!({"a op b": x, "b mirror a": y}), "mirrored comparison disagrees");
            }
        }
        ctx.mon("c09.helper").observed += 1;
        match helper_bool(rel_helper(op), a, b) {
            Ok(h) => {
                ctx.mon("c09.helper").judged += 1;
                if Some(h) != r {
                    ctx.violation("c09.helper", &format!("helper-vs-operator:{}:{},{}", op, type_name(a), type_name(b)), &rule, &data, json!({"operator": r}), json!({"helper": h}), "js_op helper disagrees with the operator");
                }
            }
            Err(p) => ctx.violation("c09.helper", "helper-panic", &rule, &data, json!("a boolean"), json!({"panic": p}), "public coercion helper panicked"),
        }
        if let Some(x) = r {
            ctx.cell(&format!("{}{}{}:{}", type_name(a), op, type_name(b), x));
        }
    }
    // the class the suite never tries: neither < nor == (by the implementation's own helpers)
    let lt = helper_bool(js_op::abstract_lt, a, b).unwrap_or(false);
    let eq = helper_bool(js_op::abstract_eq, a, b).unwrap_or(false);
    if (!lt && !eq) || type_name(a) != type_name(b) {
        ctx.mark_nontrivial(&json!("c09"), &data);
        if res[1] == Some(true) && !lt && !eq {
            ctx.cell("lte-true-but-neither-lt-nor-eq");
            ctx.sample(json!({"a": a, "b": b, "<": res[0], "<=": res[1], ">": res[2], ">=": res[3]}));
        }
    }
}

fn c09_triple(ctx: &mut Ctx, a: &Value, b: &Value, c: &Value) {
    let data = json!({"a": a, "b": b, "c": c});
    for op in RELS.iter() {
        let rule = json!({ *op: [var("a"), var("b"), var("c")] });
        let (obs, _) = ctx.check("c09.model", &rule, &data);
        let t = as_bool(&obs.out);
        let ab = as_bool(&ctx.observe(&json!({ *op: [var("a"), var("b")] }), &data).out);
        let bc = as_bool(&ctx.observe(&json!({ *op: [var("b"), var("c")] }), &data).out);
        ctx.mon("c09.between").observed += 1;
        if let (Some(t), Some(x), Some(y)) = (t, ab, bc) {
            ctx.mon("c09.between").judged += 1;
            if t != (x && y) {
                ctx.violation("c09.between", &format!("between:{}", op), &rule, &data, json!({"a op b": x, "b op c": y}), json!({"a op b op c": t}), "three-operand form is not the conjunction of the adjacent comparisons");
            }
            ctx.cell(&format!("between{}:{}", op, t));
        }
        ctx.mark_nontrivial(&rule, &data);
    }
}

fn c09_core(ctx: &mut Ctx) {
    neighbour_pairs(ctx, &mut |c, a, b| c09_pair(c, a, b));
    deep_and_wide_values(ctx, &mut |c, a, b| c09_pair(c, a, b));
    pairs_corpus(ctx, &mut |c, a, b| c09_pair(c, a, b));
    denoted_number_pairs(ctx, &mut |c, a, b| c09_pair(c, a, b));
    let small = v_small();
    let mut idx = 0u64;
    let stride = if ctx.thorough() { 1 } else { 7 };
    for a in small.iter() {
        for b in small.iter() {
            for c in small.iter() {
                idx += 1;
                if ctx.mine(idx) && (idx / ctx.nshards) % stride == ctx.seed % stride {
                    c09_triple(ctx, a, b, c);
                }
            }
        }
    }
    let n = ctx.budget(3_000, 600_000);
    for i in 0..n {
        let (a, b) = rand_pair(ctx);
        c09_pair(ctx, &a, &b);
        if i % 3 == 0 {
            let c = rand_value(&mut ctx.rng, 2);
            c09_triple(ctx, &a, &b, &c);
        }
    }
}

// =======================================================================================
// C10

const ARITH: [&str; 7] = ["+", "-", "*", "/", "%", "min", "max"];

fn arith_class(mo: &MOut) -> &'static str {
    match mo {
        MOut::Err => "error",
        MOut::Unj(_) => "unjudged",
        MOut::Val(Value::Number(n)) => {
            let f = n.as_f64().unwrap_or(0.0);
            if f.fract() != 0.0 {
                if f.abs() < 2.3e-308 {
                    "subnormal"
                } else {
                    "fractional"
                }
            } else if f.abs() >= 9223372036854775808.0 {
                "integral>=2^63"
            } else if f.abs() > 9007199254740992.0 {
                "integral>2^53"
            } else {
                "integral-small"
            }
        }
        _ => "other",
    }
}

fn c10_case(ctx: &mut Ctx, op: &str, operands: &[Value]) {
    // operands go through data so that operation-shaped values stay inert
    let keys: Vec<String> = (0..operands.len()).map(|i| i.to_string()).collect();
    let data = Value::Array(operands.to_vec());
    let rule = json!({ op: keys.iter().map(|k| json!({"var": k.parse::<i64>().unwrap()})).collect::<Vec<_>>() });
    let (obs, mo) = ctx.check("c10.model", &rule, &data);
    ctx.cell(&format!("{}:{}", op, arith_class(&mo)));
    // a returned number must carry a finite double and an integer spelling when integral < 2^63
    if let Outcome::Ok(v) = &obs.out {
        ctx.mon("c10.result-shape").observed += 1;
        ctx.mon("c10.result-shape").judged += 1;
        let okshape = match v {
            Value::Number(n) => {
                let f = n.as_f64().unwrap_or(f64::NAN);
                f.is_finite() && !(f.fract() == 0.0 && f.abs() < 9.2e18 && n.to_string().contains(|c| c == '.' || c == 'e' || c == 'E'))
            }
            _ => false,
        };
        if !okshape {
            ctx.violation("c10.result-shape", &format!("shape:{}", op), &rule, &data, json!("a finite JSON number, integer-spelled when integral"), obs.out.brief(), "arithmetic returned something that is not a well-formed numeric result");
        }
    }
    let needs_conv = operands.iter().any(|v| !v.is_number());
    let big = matches!(arith_class(&mo), "integral>=2^63" | "integral>2^53" | "error" | "subnormal");
    if needs_conv || big {
        ctx.mark_nontrivial(&rule, &data);
    }
    if big && !needs_conv {
        ctx.sample(json!({"rule": rule, "data": data, "model": crate::ctx::model_json(&mo), "got": obs.out.brief()}));
    }
}

fn c10_core(ctx: &mut Ctx) {
    let nums = v_numbers();
    let mut pool: Vec<Value> = nums.clone();
    pool.extend(v_scalars());
    for s in ["", " ", "1", " 1 ", "12px", "1e3", "1e", "1e+", "0x10", ".5", "5.", "Infinity", "-Infinity", "inf", "nan", "1-2", "1e5e5", "1.2.3", "abc", "+1", "-1", "1e400", "9007199254740993", "\t2\n", "0b11", "3,4",
              "0x1000000000000081", "0x10000000000000c1", "0xfffffffffffff801", "0x20000000000000000000000001", "0o400000000000000000001", "0.30000000000000004", "2.2250738585072011e-308", "123456789012345678901234567890", "1e23", "8.41e21"] {
        pool.push(json!(s));
    }
    for t in ["[]", "[3]", "[\"3\"]", "[1,2]", "[[2]]", "[null]", "{}", "[\"12px\"]", "[\" 2 \"]", "[1.5]"] {
        pool.push(parse(t));
    }
    let mut idx = 0u64;
    // all pairs from the pool, every operator (and the unary forms)
    for op in ARITH.iter() {
        for a in pool.iter() {
            idx += 1;
            if ctx.mine(idx) && *op != "/" && *op != "%" {
                c10_case(ctx, op, &[a.clone()]);
            }
            for b in pool.iter() {
                idx += 1;
                if ctx.mine(idx) {
                    c10_case(ctx, op, &[a.clone(), b.clone()]);
                }
            }
        }
        c10_case(ctx, op, &[]);
    }
    ctx.exhaustive_parts.push(format!("7 operators x all ordered pairs of a {}-value operand pool", pool.len()));
    // S strings as single operands and against 1 / 2
    let s = s_numeric_strings();
    for st in s.iter() {
        idx += 1;
        if !ctx.mine(idx) {
            continue;
        }
        if !ctx.thorough() && idx % 4 != ctx.seed % 4 {
            continue;
        }
        let sv = json!(st);
        for op in ARITH.iter() {
            match *op {
                "/" | "%" => c10_case(ctx, op, &[sv.clone(), json!(2)]),
                _ => {
                    c10_case(ctx, op, &[sv.clone()]);
                    c10_case(ctx, op, &[json!([st]), json!(1)]);
                }
            }
        }
    }
    // magnitude ladders and integer neighbourhoods landing on / around 2^53, 2^63, 2^64
    let hot: Vec<f64> = vec![9007199254740992.0, 9223372036854775808.0, 18446744073709551616.0, 4611686018427387904.0, 3037000499.97605, 4294967296.0, 1e154, 1.3407807929942597e154, 1e308, 1.7976931348623157e308, 5e-324, 1e-320, 2.2250738585072014e-308, 0.1, 0.2, 3.0, 1e19, 1e21];
    let n = ctx.budget(20_000, 2_500_000);
    for _ in 0..n {
        let k = ctx.rng.below(6);
        let op = *ctx.rng.pick(&ARITH);
        let k = match op {
            "/" | "%" => 2,
            "-" => 1 + ctx.rng.below(2),
            "*" | "min" | "max" => k.max(1),
            _ => k,
        };
        let mut ops: Vec<Value> = Vec::new();
        for _ in 0..k {
            let r = &mut ctx.rng;
            let v = match r.below(10) {
                0 | 1 => r.pick(&pool).clone(),
                2 | 3 => {
                    let h = *r.pick(&hot);
                    let d = r.range(-2, 2) as f64;
                    let x = if r.chance(1, 2) { h + d } else { h * (1.0 + d * f64::EPSILON) };
                    let x = if r.chance(1, 3) { -x } else { x };
                    serde_json::Number::from_f64(x).map(Value::Number).unwrap_or(json!(0))
                }
                4 => {
                    let e = r.range(-323, 308);
                    let m = 1.0 + r.f64_unit() * 9.0;
                    serde_json::from_str(&format!("{}e{}", m, e)).unwrap_or(json!(1))
                }
                5 => {
                    // integers around 2^63 / 2^64 as JSON integers
                    let base: [i128; 4] = [1 << 53, 1 << 62, 1 << 63, (1 << 64) - 1];
                    let x = *r.pick(&base) + r.range(-3, 3) as i128;
                    let x = if r.chance(1, 3) { -x } else { x };
                    if x > u64::MAX as i128 || x < i64::MIN as i128 { json!(1) } else { parse(&x.to_string()) }
                }
                6 => json!(r.range(-100, 100)),
                7 => json!((r.range(-1000, 1000) as f64) / 8.0),
                8 => json!(s[r.below(s.len())]),
                _ => json!(format!("{}", r.range(-50, 50) as f64 / 4.0)),
            };
            ops.push(v);
        }
        c10_case(ctx, op, &ops);
    }
}

// =======================================================================================
// C15

fn c15_merge(ctx: &mut Ctx, operands: &[Value]) {
    let data = Value::Array(operands.to_vec());
    let rule = json!({"merge": (0..operands.len()).map(|i| json!({"var": i})).collect::<Vec<_>>()});
    let (obs, _) = ctx.check("c15.merge.model", &rule, &data);
    // length / order law (needs no model)
    ctx.mon("c15.merge.length").observed += 1;
    if let Outcome::Ok(Value::Array(out)) = &obs.out {
        ctx.mon("c15.merge.length").judged += 1;
        let want: usize = operands.iter().map(|o| o.as_array().map(|a| a.len()).unwrap_or(1)).sum();
        let mut flat: Vec<&Value> = Vec::new();
        for o in operands {
            match o {
                Value::Array(a) => flat.extend(a.iter()),
                x => flat.push(x),
            }
        }
        let same = out.len() == want && out.iter().zip(flat.iter()).all(|(x, y)| x.to_string() == y.to_string());
        if !same {
            ctx.violation("c15.merge.length", "length-order", &rule, &data, json!({"length": want}), obs.out.brief(), "merge result is not the one-level concatenation in order");
        }
    }
    // other spellings of the same call: the single operand written without brackets (one operand = one
    // operand, whatever it evaluates to), operands reached through other operators, literal operands
    let bare = json!({"merge": {"var": ""}});
    let (ob, _) = ctx.check("c15.merge.model", &bare, &data);
    ctx.mon("c15.merge.length").observed += 1;
    ctx.mon("c15.merge.length").judged += 1;
    if !matches!(&ob.out, Outcome::Ok(r) if r.to_string() == data.to_string()) {
        ctx.violation("c15.merge.length", "bare-operand-one-level", &bare, &crate::ctx::shallow(&data), json!({"the operand itself": "an array operand is spliced exactly one level"}), ob.out.brief(), "merge of one array operand (written without brackets) is not that array");
    }
    if !operands.is_empty() {
        let via_if = json!({"merge": (0..operands.len()).map(|i| json!({"if": [true, {"var": i}, "x"]})).collect::<Vec<_>>()});
        let (o2, _) = ctx.check("c15.merge.model", &via_if, &data);
        if !same_outcome_text(&o2.out, &obs.out) {
            ctx.violation("c15.merge.length", "operand-route", &via_if, &crate::ctx::shallow(&data), obs.out.brief(), o2.out.brief(), "merge gives a different result when its operands are reached through `if` instead of `var`");
        }
        if operands.len() == 1 {
            let bare1 = json!({"merge": {"var": 0}});
            let (o3, _) = ctx.check("c15.merge.model", &bare1, &data);
            if !same_outcome_text(&o3.out, &obs.out) {
                ctx.violation("c15.merge.length", "bare-vs-bracketed", &bare1, &crate::ctx::shallow(&data), obs.out.brief(), o3.out.brief(), "{merge: x} differs from {merge: [x]}");
            }
        }
    }
    if operands.iter().any(|o| o.as_array().map(|a| a.iter().any(|x| x.is_array())).unwrap_or(false)) {
        ctx.mark_nontrivial(&rule, &data);
        ctx.cell("merge:nested-array-operand");
    }
    ctx.cell(&format!("merge:n={}", operands.len().min(6)));
}

fn same_outcome_text(a: &Outcome, b: &Outcome) -> bool {
    match (a, b) {
        (Outcome::Ok(x), Outcome::Ok(y)) => x.to_string() == y.to_string(),
        (Outcome::Err(_), Outcome::Err(_)) => true,
        (Outcome::Panic(_), Outcome::Panic(_)) => true,
        _ => false,
    }
}

fn c15_in(ctx: &mut Ctx, needle: &Value, hay: &Value) {
    let data = json!({"n": needle, "h": hay});
    let rule = json!({"in": [var("n"), var("h")]});
    let (obs, mo) = ctx.check("c15.in.model", &rule, &data);
    if literal_ok(needle) && literal_ok(hay) {
        ctx.check("c15.in.model", &json!({"in": [needle, hay]}), &Value::Null);
    }
    let cls = match (&mo, hay) {
        (MOut::Unj(_), _) => "unjudged".to_string(),
        (MOut::Err, _) => format!("err:{}", type_name(hay)),
        (MOut::Val(v), _) => format!("{}-in-{}:{}", type_name(needle), type_name(hay), v),
    };
    ctx.cell(&format!("in:{}", cls));
    let has_num = |v: &Value| v.to_string().chars().any(|c| c.is_ascii_digit());
    if hay.is_array() && (needle.is_array() || needle.is_object() || (needle.is_number() && has_num(hay))) {
        ctx.mark_nontrivial(&rule, &data);
        if obs.out.brief().get("ok") == Some(&json!(true)) && !hay.as_array().unwrap().iter().any(|x| x.to_string() == needle.to_string()) {
            ctx.cell("in:true-through-different-spelling");
            ctx.sample(json!({"needle": needle, "haystack": hay, "in": true}));
        }
    }
}

fn c15_core(ctx: &mut Ctx) {
    let v = v_all();
    let small = v_small();
    let mut idx = 0u64;
    // merge: all operand lists of length 0..2 over the small corpus + nested shapes
    let shapes: Vec<Value> = ["[]", "[1]", "[[1]]", "[[1],[2]]", "[[[1]]]", "[1,[2,[3]]]", "{}", "{\"a\":[1]}", "null", "\"ab\"", "[null]", "[[],[]]", "1", "[{\"var\":\"a\"}]"].iter().map(|t| parse(t)).collect();
    c15_merge(ctx, &[]);
    for a in shapes.iter().chain(small.iter()) {
        idx += 1;
        if ctx.mine(idx) {
            c15_merge(ctx, &[a.clone()]);
        }
        for b in shapes.iter() {
            idx += 1;
            if ctx.mine(idx) {
                c15_merge(ctx, &[a.clone(), b.clone()]);
                c15_merge(ctx, &[b.clone(), a.clone(), b.clone()]);
            }
        }
    }
    // in: number spellings at depth 0..2, objects with permuted key order in the text
    let spell: Vec<Value> = ["1", "1.0", "1e0", "10e-1", "0", "-0.0", "0.0", "2", "2.0", "2e0", "9007199254740992", "9007199254740992.0", "9007199254740993", "1.5", "15e-1", "\"1\"", "true", "null", "-1", "-1.0"].iter().map(|t| parse(t)).collect();
    let wraps: Vec<fn(&Value) -> Value> = vec![|x| x.clone(), |x| json!([x]), |x| json!({"k": x}), |x| json!([[x], {"a": {"b": x}}]), |x| json!({"z": 1, "a": [x]})];
    for a in spell.iter() {
        for b in spell.iter() {
            for w in wraps.iter() {
                idx += 1;
                if ctx.mine(idx) {
                    let needle = w(a);
                    let hay = json!([0.5, "x", w(b), null]);
                    c15_in(ctx, &needle, &hay);
                }
            }
        }
    }
    ctx.exhaustive_parts.push(format!("in: {} number spellings squared x {} nesting wrappers", spell.len(), wraps.len()));
    // key order in the text must be irrelevant
    let o1 = parse("{\"a\":1,\"b\":[2,{\"c\":3,\"d\":4}]}");
    let o2 = parse("{\"b\":[2,{\"d\":4.0,\"c\":3}],\"a\":1.0}");
    c15_in(ctx, &o1, &json!([o2.clone()]));
    c15_in(ctx, &o2, &json!([1, o1.clone()]));
    // V x haystacks
    let hays: Vec<Value> = vec![json!(null), json!(""), json!("abc"), json!("a😀b日本é"), json!("1,2"), json!([]), Value::Array(small.clone()), json!([[1], [1, 2], {"a": 1}, [[]], [null]]), json!(5), json!(true), json!({}), json!({"a": 1})];
    for a in v.iter() {
        for h in hays.iter() {
            idx += 1;
            if ctx.mine(idx) {
                c15_in(ctx, a, h);
            }
        }
    }
    // substrings: non-ASCII, overlapping, empty needle
    for h in u_strings(3).iter() {
        for n in u_strings(2).iter() {
            idx += 1;
            if ctx.mine(idx) && (ctx.thorough() || idx % 3 == 0) {
                c15_in(ctx, &json!(n), &json!(h));
            }
        }
    }
    let n = ctx.budget(8_000, 1_000_000);
    for _ in 0..n {
        if ctx.rng.chance(1, 2) {
            let k = ctx.rng.below(7);
            let ops: Vec<Value> = (0..k).map(|_| if ctx.rng.chance(1, 2) { rand_value(&mut ctx.rng, 3) } else { ctx.rng.pick(&shapes).clone() }).collect();
            c15_merge(ctx, &ops);
        } else {
            let hay = match ctx.rng.below(8) {
                0 => Value::String(u_random(&mut ctx.rng, 0, 8)),
                1 => rand_value(&mut ctx.rng, 2),
                _ => {
                    let k = ctx.rng.below(6);
                    Value::Array((0..k).map(|_| if ctx.rng.chance(1, 3) { ctx.rng.pick(&spell).clone() } else { rand_value(&mut ctx.rng, 2) }).collect())
                }
            };
            let needle = match (&hay, ctx.rng.below(4)) {
                (Value::Array(a), 0) if !a.is_empty() => {
                    // re-spell a member: round-trip through text keeps it, numeric re-spelling changes text
                    let m = ctx.rng.pick(a).clone();
                    respell(&m)
                }
                (Value::String(s), 0) if !s.is_empty() => {
                    let cs: Vec<char> = s.chars().collect();
                    let i = ctx.rng.below(cs.len());
                    let j = i + ctx.rng.below(cs.len() - i + 1);
                    Value::String(cs[i..j].iter().collect())
                }
                (_, 1) => ctx.rng.pick(&spell).clone(),
                _ => rand_value(&mut ctx.rng, 2),
            };
            c15_in(ctx, &needle, &hay);
        }
    }
}

/// The same value with integral numbers re-spelled as doubles and vice versa.
fn respell(v: &Value) -> Value {
    match v {
        Value::Number(n) => {
            if let Some(i) = n.as_i64() {
                if i.unsigned_abs() < (1 << 53) {
                    return json!(i as f64);
                }
            } else if let Some(f) = n.as_f64() {
                if f.fract() == 0.0 && f.abs() < 9e15 {
                    return json!(f as i64);
                }
            }
            v.clone()
        }
        Value::Array(a) => Value::Array(a.iter().map(respell).collect()),
        Value::Object(m) => Value::Object(m.iter().map(|(k, x)| (k.clone(), respell(x))).collect()),
        _ => v.clone(),
    }
}

// =======================================================================================
// C16

fn c16_substr(ctx: &mut Ctx, s: &str, start: i64, len: Option<i64>) {
    let mut args = vec![json!(s), json!(start)];
    if let Some(l) = len {
        args.push(json!(l));
    }
    let rule = json!({ "substr": args });
    let (obs, _) = ctx.check("c16.substr.model", &rule, &Value::Null);
    // contiguity: the result is a contiguous run of characters of s (no model needed)
    ctx.mon("c16.substr.contiguous").observed += 1;
    if let Outcome::Ok(Value::String(out)) = &obs.out {
        ctx.mon("c16.substr.contiguous").judged += 1;
        let cs: Vec<char> = s.chars().collect();
        let oc: Vec<char> = out.chars().collect();
        let ok = oc.is_empty() || cs.windows(oc.len()).any(|w| w == &oc[..]);
        if !ok {
            ctx.violation("c16.substr.contiguous", "not-contiguous", &rule, &Value::Null, json!("a contiguous run of characters of the input"), obs.out.brief(), "substr returned text that is not a character-aligned slice of the input");
        }
    }
    let multibyte = s.len() != s.chars().count();
    if multibyte && (start != 0 || len.is_some()) {
        ctx.mark_nontrivial(&rule, &Value::Null);
    }
    let sc = if start < 0 { "neg" } else if start == 0 { "zero" } else { "pos" };
    let lc = match len {
        None => "absent",
        Some(l) if l < 0 => "neg",
        Some(0) => "zero",
        _ => "pos",
    };
    ctx.cell(&format!("substr:start={}:len={}:{}", sc, lc, if multibyte { "multibyte" } else { "ascii" }));
}

fn substr_real(ctx: &mut Ctx, s: &str, start: i64, len: Option<i64>) -> Option<String> {
    let mut args = vec![json!(s), json!(start)];
    if let Some(l) = len {
        args.push(json!(l));
    }
    match ctx.observe(&json!({ "substr": args }), &Value::Null).out {
        Outcome::Ok(Value::String(x)) => Some(x),
        _ => None,
    }
}

fn c16_laws(ctx: &mut Ctx, s: &str) {
    let n = s.chars().count() as i64;
    // split / recombine: substr(s,0,i) ++ substr(s,i) = s for every i >= 0
    for i in 0..=(n + 2) {
        let a = substr_real(ctx, s, 0, Some(i));
        let b = substr_real(ctx, s, i, None);
        ctx.mon("c16.substr.split-recombine").observed += 1;
        if let (Some(a), Some(b)) = (&a, &b) {
            ctx.mon("c16.substr.split-recombine").judged += 1;
            if format!("{}{}", a, b) != s {
                ctx.violation("c16.substr.split-recombine", "split-recombine", &json!({"substr": [s, 0, i]}), &Value::Null, json!(s), json!({"head": a, "tail": b}), "substr(s,0,i) followed by substr(s,i) is not s");
            }
        }
    }
    // substr(s,-k) = the last k characters
    for k in 1..=(n + 1) {
        let got = substr_real(ctx, s, -k, None);
        ctx.mon("c16.substr.suffix").observed += 1;
        if let Some(g) = got {
            ctx.mon("c16.substr.suffix").judged += 1;
            let cs: Vec<char> = s.chars().collect();
            let from = (n - k).max(0) as usize;
            let want: String = cs[from..].iter().collect();
            if g != want {
                ctx.violation("c16.substr.suffix", "negative-start", &json!({"substr": [s, -k]}), &Value::Null, json!(want), json!(g), "substr(s,-k) is not the last k characters");
            }
        }
    }
}

fn c16_cat(ctx: &mut Ctx, operands: &[Value]) {
    let data = Value::Array(operands.to_vec());
    let vars: Vec<Value> = (0..operands.len()).map(|i| json!({"var": i})).collect();
    let rule = json!({ "cat": vars });
    let (obs, _) = ctx.check("c16.cat.model", &rule, &data);
    // associativity: cat(cat(a,b),c..) = cat(a,b,c..)
    if operands.len() >= 3 {
        let nested = json!({"cat": [{"cat": [vars[0], vars[1]]}, {"cat": vars[2..].to_vec()}]});
        let o2 = ctx.observe(&nested, &data);
        ctx.mon("c16.cat.pieces").observed += 1;
        if let (Outcome::Ok(a), Outcome::Ok(b)) = (&obs.out, &o2.out) {
            ctx.mon("c16.cat.pieces").judged += 1;
            if a != b {
                ctx.violation("c16.cat.pieces", "pieces", &nested, &data, obs.out.brief(), o2.out.brief(), "concatenating in pieces differs from concatenating at once");
            }
        }
    }
    if operands.iter().any(|o| !o.is_string()) {
        ctx.mark_nontrivial(&rule, &data);
    }
    for o in operands {
        ctx.cell(&format!("cat:operand:{}", type_name(o)));
    }
    if operands.iter().any(|o| o.is_array()) {
        ctx.sample(json!({"cat": operands, "got": obs.out.brief()}));
    }
}

fn c16_core(ctx: &mut Ctx) {
    let maxlen = if ctx.thorough() { 4 } else { 3 };
    let strings = u_strings(maxlen);
    let extremes = [i64::MIN, i64::MIN + 1, i64::MAX, i64::MAX - 1];
    let mut idx = 0u64;
    for s in strings.iter() {
        idx += 1;
        if !ctx.mine(idx) {
            continue;
        }
        c16_laws(ctx, s);
        for start in (-10..=10).chain(extremes.iter().cloned()) {
            c16_substr(ctx, s, start, None);
            for len in (-10..=10).chain(extremes.iter().cloned()) {
                // thin the product in the quick tier, keep all small offsets
                if !ctx.thorough() && (start.unsigned_abs() > 5 || len.unsigned_abs() > 5) && start.wrapping_add(len) % 3 != 0 && start.unsigned_abs() < 1000 && len.unsigned_abs() < 1000 {
                    continue;
                }
                c16_substr(ctx, s, start, Some(len));
            }
        }
    }
    ctx.exhaustive_parts.push(format!("all {} strings of length 0..{} over [a, é, 日, 😀, U+0301] x start x length in -10..10 + 64-bit extremes", strings.len(), maxlen));
    // code points at the edges of the UTF-8 length classes (and NUL, DEL, NBSP): all strings of
    // length 1..3 over them, small offsets
    let edge = ["\u{0}", "\u{7E}", "\u{7F}", "\u{80}", "\u{7FF}", "\u{800}", "\u{D7FF}", "\u{E000}", "\u{FFFF}", "\u{10000}", "\u{10FFFF}", "\u{A0}", "a"];
    for a in edge.iter() {
        for b in edge.iter() {
            idx += 1;
            if !ctx.mine(idx) {
                continue;
            }
            for c in ["", "a", "\u{7F}", "\u{10000}"] {
                let s = format!("{}{}{}", a, b, c);
                c16_laws(ctx, &s);
                for start in -4..=4 {
                    c16_substr(ctx, &s, start, None);
                    for len in -4..=4 {
                        c16_substr(ctx, &s, start, Some(len));
                    }
                }
            }
        }
    }
    ctx.exhaustive_parts.push("all strings a+b+c over 13 code points at the edges of the UTF-8 length classes x start, length in -4..4".into());
    let n = ctx.budget(300, 30_000);
    for _ in 0..n {
        let s = u_random(&mut ctx.rng, 5, 8);
        c16_laws(ctx, &s);
        for _ in 0..20 {
            let start = ctx.rng.range(-10, 10);
            let len = if ctx.rng.chance(1, 4) { None } else { Some(ctx.rng.range(-10, 10)) };
            c16_substr(ctx, &s, start, len);
        }
    }
    // cat
    let v = v_all();
    c16_cat(ctx, &[]);
    for a in v.iter() {
        idx += 1;
        if ctx.mine(idx) {
            c16_cat(ctx, &[a.clone()]);
            c16_cat(ctx, &[json!("<"), a.clone(), json!(">")]);
            c16_cat(ctx, &[json!([a, null, [a, [null, a]]]), a.clone(), json!({"k": a})]);
        }
    }
    let n = ctx.budget(4_000, 600_000);
    for _ in 0..n {
        let k = ctx.rng.below(6);
        let ops: Vec<Value> = (0..k).map(|_| rand_value(&mut ctx.rng, 3)).collect();
        c16_cat(ctx, &ops);
    }
}

// ---------------------------------------------------------------------------------------
// entry points used by the size ladders (props_sizes.rs)

pub fn c06_value_pub(ctx: &mut Ctx, v: &Value) {
    c06_value(ctx, v)
}
pub fn c07_pair_pub(ctx: &mut Ctx, a: &Value, b: &Value) {
    c07_pair(ctx, a, b);
    c07_pair(ctx, b, a);
}
pub fn c08_pair_pub(ctx: &mut Ctx, a: &Value, b: &Value) {
    c08_pair(ctx, a, b);
    c08_pair(ctx, b, a);
}
pub fn c09_pair_pub(ctx: &mut Ctx, a: &Value, b: &Value) {
    c09_pair(ctx, a, b);
    c09_pair(ctx, b, a);
}
pub fn c09_triple_pub(ctx: &mut Ctx, a: &Value, b: &Value, c: &Value) {
    c09_triple(ctx, a, b, c)
}
pub fn c10_case_pub(ctx: &mut Ctx, op: &str, operands: &[Value]) {
    c10_case(ctx, op, operands)
}
pub fn c15_in_pub(ctx: &mut Ctx, needle: &Value, hay: &Value) {
    c15_in(ctx, needle, hay)
}
pub fn c15_merge_pub(ctx: &mut Ctx, operands: &[Value]) {
    c15_merge(ctx, operands)
}
pub fn c16_substr_pub(ctx: &mut Ctx, s: &str, start: i64, len: Option<i64>) {
    c16_substr(ctx, s, start, len)
}
/// Arithmetic over operands that are themselves arithmetic (values that only arise as
/// intermediate results; grouping matters for rounding and overflow).
pub fn c10_nested(ctx: &mut Ctx) {
    let hot: Vec<Value> = ["0.1", "0.2", "0.3", "1", "9007199254740992", "1e308", "1e-200", "1e300", "10", "-1", "0.5", "3", "1e16", "5e-324", "\"0.1\"", "\"2px\"", "[3]", "null", "9223372036854775807"].iter().map(|t| parse(t)).collect();
    fn tree(r: &mut crate::rng::Rng, hot: &[Value], depth: usize) -> Value {
        if depth == 0 || r.chance(1, 3) {
            return r.pick(hot).clone();
        }
        let op = *r.pick(&ARITH);
        let n = match op {
            "/" | "%" => 2,
            "-" => 1 + r.below(2),
            _ => 1 + r.below(4),
        };
        let args: Vec<Value> = (0..n).map(|_| tree(r, hot, depth - 1)).collect();
        json!({ op: args })
    }
    // the systematic part: same operator nested in every operand position
    let mut idx = 0u64;
    for op in ["+", "*", "max", "min", "-"] {
        for a in hot.iter().take(14) {
            for b in hot.iter().take(14) {
                idx += 1;
                if !ctx.mine(idx) {
                    continue;
                }
                let c = &hot[(idx % 14) as usize];
                let inner = if op == "-" { json!({ op: [b, c] }) } else { json!({ op: [b, c] }) };
                for rule in [json!({ op: [a, inner] }), json!({ op: [inner, a] })] {
                    ctx.check("c10.model", &rule, &Value::Null);
                }
                if op != "-" {
                    ctx.check("c10.model", &json!({ op: [a, { op: [b, { op: [c, a] }] }] }), &Value::Null);
                    ctx.check("c10.model", &json!({ op: [a, b, { op: [c, a] }, b] }), &Value::Null);
                }
            }
        }
    }
    let n = ctx.budget(4_000, 600_000);
    for i in 0..n {
        let rule = tree(&mut ctx.rng, &hot, 3);
        let (_, mo) = ctx.check("c10.model", &rule, &Value::Null);
        ctx.cell(&format!("nested-arith:{}", arith_class(&mo)));
        if i % 500 == 0 {
            ctx.sample(json!({ "nested": rule }));
        }
        ctx.mark_nontrivial(&rule, &Value::Null);
    }
}

pub fn c16_tables(ctx: &mut Ctx) {
    for n in [3usize, 100, 127, 128, 129, 255, 256, 257, 300, 1000] {
        let table = Value::Array((0..n).map(|i| json!([i])).collect());
        let rows = Value::Array((0..n).map(|i| json!([i, [format!("r{}", i), null]])).collect());
        c16_cat(ctx, &[table.clone()]);
        c16_cat(ctx, &[rows.clone(), json!("|"), table.clone()]);
        c16_cat(ctx, &[json!("a"), rows, json!("b"), table]);
    }
    for d in [100usize, 127, 128, 129, 200, 300] {
        let mut v = json!("x");
        for _ in 0..d {
            v = json!([v, null]);
        }
        c16_cat(ctx, &[v.clone()]);
        c16_cat(ctx, &[json!("<"), v, json!(">")]);
    }
}

pub fn c16_cat_pub(ctx: &mut Ctx, operands: &[Value]) {
    c16_cat(ctx, operands)
}
pub fn c16_laws_pub(ctx: &mut Ctx, s: &str, only: Option<Vec<i64>>) {
    match only {
        None => c16_laws(ctx, s),
        Some(ps) => {
            let n = s.chars().count() as i64;
            for i in ps.iter().cloned().chain([n, n + 1].into_iter()) {
                let a = substr_real(ctx, s, 0, Some(i));
                let b = substr_real(ctx, s, i, None);
                ctx.mon("c16.substr.split-recombine").observed += 1;
                if let (Some(a), Some(b)) = (&a, &b) {
                    ctx.mon("c16.substr.split-recombine").judged += 1;
                    if format!("{}{}", a, b) != s {
                        ctx.violation("c16.substr.split-recombine", "split-recombine", &json!({"substr": [s, 0, i]}), &Value::Null, json!({"length": n}), json!({"head_chars": a.chars().count(), "tail_chars": b.chars().count()}), "substr(s,0,i) followed by substr(s,i) is not s");
                    }
                }
                let k = (n - i).max(1);
                let got = substr_real(ctx, s, -k, None);
                ctx.mon("c16.substr.suffix").observed += 1;
                if let Some(g) = got {
                    ctx.mon("c16.substr.suffix").judged += 1;
                    let cs: Vec<char> = s.chars().collect();
                    let want: String = cs[(n - k).max(0) as usize..].iter().collect();
                    if g != want {
                        ctx.violation("c16.substr.suffix", "negative-start", &json!({"substr": [s, -k]}), &Value::Null, json!({"chars": want.chars().count()}), json!({"chars": g.chars().count()}), "substr(s,-k) is not the last k characters");
                    }
                }
            }
        }
    }
}


/// Collections in which values of *different* truthiness that look alike (0 and "0", false and
/// "false", null and "null", [] and "", [0] and 0, 1 and 1.0) sit next to and far from each other,
/// at lengths on both sides of any plausible "long input" threshold. One decision per element:
/// a verdict remembered per element (by its text, its number, its length) goes wrong only here.
fn c06_mixed_collections(ctx: &mut Ctx) {
    let corner: Vec<Value> = ["0", "\"0\"", "false", "\"false\"", "null", "\"null\"", "[]", "\"\"", "[0]", "[[]]", "[\"\"]", "[null]", "{}", "\"[object Object]\"", "1", "1.0", "\"1\"", "true", "\"true\"",
        "-0.0", "\"-0\"", "0.0", "\"0.0\"", "\" \"", "1e-320", "\"NaN\"", "[false]", "\"a\"", "[1]", "\"1,2\"", "[1,2]", "{\"a\":1}", "0e0", "\"\\u0000\""].iter().map(|t| parse(t)).collect();
    let lens: &[usize] = if ctx.thorough() { &[8, 31, 32, 33, 64, 100, 257, 1000, 5000] } else { &[8, 31, 32, 33, 64, 100, 257, 1000] };
    let mut idx = 0u64;
    for &len in lens {
        for arrangement in 0..4u64 {
            idx += 1;
            if !ctx.mine(idx) {
                continue;
            }
            let mut arr: Vec<Value> = Vec::with_capacity(len);
            match arrangement {
                0 => (0..len).for_each(|i| arr.push(corner[i % corner.len()].clone())), // look-alikes adjacent, in corpus order
                1 => (0..len).for_each(|i| arr.push(corner[(len - 1 - i) % corner.len()].clone())), // reversed: the string before the value
                2 => (0..len).for_each(|_| arr.push(ctx.rng.pick(&corner).clone())),
                _ => {
                    // one look-alike far behind its twin: a run of one value, the twin at the very end
                    let k = ctx.rng.below(corner.len() / 2) * 2;
                    (0..len - 1).for_each(|_| arr.push(corner[k].clone()));
                    arr.push(corner[(k + 1) % corner.len()].clone());
                }
            }
            let want: Vec<bool> = arr.iter().map(refsem::truthy).collect();
            let data = json!({ "c": arr });
            let c = var("c");
            let rules: Vec<(&str, Value)> = vec![
                ("filter", json!({"filter": [c, var("")]})),
                ("filter-not", json!({"filter": [c, {"!": [var("")]}]})),
                ("map-bool", json!({"map": [c, {"!!": [var("")]}]})),
                ("map-if", json!({"map": [c, {"if": [var(""), 1, 0]}]})),
                ("map-and", json!({"map": [c, {"and": [var(""), "M"]}]})),
                ("all", json!({"all": [c, var("")]})),
                ("some", json!({"some": [c, var("")]})),
                ("none", json!({"none": [c, var("")]})),
                ("count", json!({"reduce": [c, {"+": [var("accumulator"), {"if": [var("current"), 1, 0]}]}, 0]})),
                ("filter-literal", json!({"filter": [arr, var("")]})),
            ];
            for (name, rule) in rules.iter() {
                let (obs, _) = ctx.check("c06.model", rule, &data);
                // the table applied element by element, without the model
                let expect: Option<Value> = match *name {
                    "filter" | "filter-literal" => Some(Value::Array(arr.iter().zip(want.iter()).filter(|(_, w)| **w).map(|(v, _)| v.clone()).collect())),
                    "filter-not" => Some(Value::Array(arr.iter().zip(want.iter()).filter(|(_, w)| !**w).map(|(v, _)| v.clone()).collect())),
                    "map-bool" => Some(Value::Array(want.iter().map(|w| json!(*w)).collect())),
                    "map-if" => Some(Value::Array(want.iter().map(|w| json!(if *w { 1 } else { 0 })).collect())),
                    "all" => Some(json!(want.iter().all(|w| *w))),
                    "some" => Some(json!(want.iter().any(|w| *w))),
                    "none" => Some(json!(!want.iter().any(|w| *w))),
                    "count" => Some(json!(want.iter().filter(|w| **w).count())),
                    _ => None,
                };
                if let Some(e) = expect {
                    ctx.mon("c06.table").observed += 1;
                    ctx.mon("c06.table").judged += 1;
                    let ok = matches!(&obs.out, Outcome::Ok(r) if r.to_string() == e.to_string());
                    if !ok {
                        ctx.violation("c06.table", &format!("mixed-collection:{}:len{}", name, if len >= 32 { "32+" } else { "<32" }), rule, &crate::ctx::shallow(&data), json!({"element decisions": "the table, element by element"}), obs.out.brief(), "a decision over a collection of look-alike values disagrees with the truthiness table applied to each element");
                    }
                }
            }
            ctx.mark_nontrivial_key(&format!("c06:mixed:{}:{}", len, arrangement));
            ctx.cell("mixed-collection");
        }
    }
}

pub fn c06(ctx: &mut Ctx) {
    c06_core(ctx);
    c06_mixed_collections(ctx);
    crate::props_sizes::c06(ctx);
    crate::props_far::c06(ctx);
    crate::props_far::c06_wide(ctx);
}

pub fn c07(ctx: &mut Ctx) {
    c07_core(ctx);
    crate::props_sizes::c07(ctx);
    crate::props_far::strings_of_deep_arrays(ctx, "C07");
    crate::props_far::exponent_grid(ctx, &mut |c, s| {
        let sv = json!(s);
        if let refsem::SN::Num(f) = refsem::string_to_number(s) {
            if f.is_finite() {
                if let Some(num) = serde_json::Number::from_f64(f) {
                    c07_pair(c, &sv, &Value::Number(num));
                }
                for nb in [f64::from_bits(f.to_bits().wrapping_add(1)), f64::from_bits(f.to_bits().wrapping_sub(1))] {
                    if nb.is_finite() && f != 0.0 {
                        if let Some(num) = serde_json::Number::from_f64(nb) {
                            c07_pair(c, &Value::Number(num), &sv);
                        }
                    }
                }
            }
        }
    });
}

pub fn c08(ctx: &mut Ctx) {
    c08_core(ctx);
    crate::props_sizes::c08(ctx);
    crate::props_far::strings_of_deep_arrays(ctx, "C08");
}

pub fn c09(ctx: &mut Ctx) {
    c09_core(ctx);
    crate::props_sizes::c09(ctx);
    crate::props_far::strings_of_deep_arrays(ctx, "C09");
    crate::props_far::exponent_grid(ctx, &mut |c, s| {
        if s.len() % 3 != 0 {
            return; // a third of the grid is enough here (C07 and C10 take all of it)
        }
        let sv = json!(s);
        if let refsem::SN::Num(f) = refsem::string_to_number(s) {
            if f.is_finite() {
                if let Some(num) = serde_json::Number::from_f64(f) {
                    c09_pair(c, &sv, &Value::Number(num.clone()));
                    c09_pair(c, &Value::Number(num), &sv);
                }
            }
        }
    });
}

pub fn c10(ctx: &mut Ctx) {
    c10_core(ctx);
    c10_nested(ctx);
    crate::props_sizes::c10(ctx);
    crate::props_far::c10(ctx);
    crate::props_far::exponent_grid(ctx, &mut |c, s| {
        c10_case(c, "+", &[json!(s)]);
        c10_case(c, "*", &[json!(s), json!(1)]);
        c10_case(c, "-", &[json!(s)]);
        c10_case(c, "+", &[json!([s]), json!(0)]);
        c10_case(c, "max", &[json!(s), json!("-1e400")]);
    });
}

pub fn c15(ctx: &mut Ctx) {
    c15_core(ctx);
    crate::props_sizes::c15(ctx);
    crate::props_far::c15(ctx);
}

pub fn c16(ctx: &mut Ctx) {
    c16_core(ctx);
    crate::props_sizes::c16(ctx);
    crate::props_far::c16(ctx);
}
