//! Small deterministic PRNG (xoshiro256** seeded through SplitMix64).
//! Every random choice of every workload goes through this, so a workload is
//! a pure function of (VERIF_SEED, property id, tier, shard).

#[derive(Clone)]
pub struct Rng {
    s: [u64; 4],
}

fn splitmix(x: &mut u64) -> u64 {
    *x = x.wrapping_add(0x9E3779B97F4A7C15);
    let mut z = *x;
    z = (z ^ (z >> 30)).wrapping_mul(0xBF58476D1CE4E5B9);
    z = (z ^ (z >> 27)).wrapping_mul(0x94D049BB133111EB);
    z ^ (z >> 31)
}

pub fn hash_str(s: &str) -> u64 {
    // FNV-1a 64
    let mut h: u64 = 0xcbf29ce484222325;
    for b in s.as_bytes() {
        h ^= *b as u64;
        h = h.wrapping_mul(0x100000001b3);
    }
    h
}

impl Rng {
    pub fn new(seed: u64) -> Rng {
        let mut x = seed;
        let s = [
            splitmix(&mut x),
            splitmix(&mut x),
            splitmix(&mut x),
            splitmix(&mut x),
        ];
        Rng { s }
    }
    pub fn from_parts(seed: u64, id: &str, shard: u64) -> Rng {
        Rng::new(seed ^ hash_str(id).rotate_left(17) ^ shard.wrapping_mul(0xA24BAED4963EE407))
    }
    pub fn next(&mut self) -> u64 {
        let r = self.s[1].wrapping_mul(5).rotate_left(7).wrapping_mul(9);
        let t = self.s[1] << 17;
        self.s[2] ^= self.s[0];
        self.s[3] ^= self.s[1];
        self.s[1] ^= self.s[2];
        self.s[0] ^= self.s[3];
        self.s[2] ^= t;
        self.s[3] = self.s[3].rotate_left(45);
        r
    }
    /// uniform in 0..n (n > 0)
    pub fn below(&mut self, n: usize) -> usize {
        (self.next() % (n as u64)) as usize
    }
    /// uniform in lo..=hi
    pub fn range(&mut self, lo: i64, hi: i64) -> i64 {
        lo + (self.next() % ((hi - lo + 1) as u64)) as i64
    }
    pub fn chance(&mut self, num: u32, den: u32) -> bool {
        (self.next() % den as u64) < num as u64
    }
    pub fn pick<'a, T>(&mut self, xs: &'a [T]) -> &'a T {
        &xs[self.below(xs.len())]
    }
    pub fn f64_unit(&mut self) -> f64 {
        (self.next() >> 11) as f64 / (1u64 << 53) as f64
    }
}
