use crate::ctx::Ctx;
pub fn c11(_c: &mut Ctx) {}
pub fn c12(_c: &mut Ctx) {}
