//! C11 (`var`) and C12 (`missing`, `missing_some`).

use crate::corpus::*;
use crate::ctx::{type_name, Ctx};
use crate::observe::Outcome;
use crate::refsem::{self, MOut};
use serde_json::{json, Value};

fn path_of(segs: &[String]) -> String {
    segs.iter().map(|s| escape_seg(s)).collect::<Vec<_>>().join(".")
}

/// Replace the node at `segs` (concrete keys / indices) by `new`.
fn replace_at(d: &Value, segs: &[String], new: &Value) -> Value {
    if segs.is_empty() {
        return new.clone();
    }
    match d {
        Value::Object(m) => {
            let mut m2 = m.clone();
            if let Some(c) = m.get(&segs[0]) {
                m2.insert(segs[0].clone(), replace_at(c, &segs[1..], new));
            }
            Value::Object(m2)
        }
        Value::Array(a) => {
            let mut a2 = a.clone();
            if let Ok(i) = segs[0].parse::<usize>() {
                if i < a.len() {
                    a2[i] = replace_at(&a[i], &segs[1..], new);
                }
            }
            Value::Array(a2)
        }
        other => other.clone(),
    }
}

fn fixed_trees() -> Vec<Value> {
    vec![
        json!({"a": {"b": {"c": 1}}, "a.b": "dotted", "a\\b": "backslash", "x": null, "e": "", "z": [], "0": "zero-key", "-1": "minus-one-key",
               "arr": [10, [20, 21], {"k": "v"}, null, "str"], "s": "héllo😀", "": {"": "empty-empty", "q": 1}, "é": {"日": 3}, "😀": "astral-key", "a😀b": [1], "n": {"1": "one-key", "01": "zero-one"}}),
        json!([1, [2, [3, [4]]], {"a": [5, 6]}, "日本語", null, "", []]),
        json!("a😀é日\u{301}z"),
        json!({"secret": 42, "var": {"var": "secret"}, "default": {"log": "LEAK-d"}}),
        json!(5),
        json!(null),
        json!(true),
        json!({}),
        json!([]),
        json!(""),
    ]
}

fn c11_case(ctx: &mut Ctx, rule: &Value, data: &Value, cls: &str) -> Outcome {
    let (obs, mo) = ctx.check("c11.model", rule, data);
    ctx.cell(&format!("var:{}:{}", cls, match mo {
        MOut::Val(_) => "value",
        MOut::Err => "err",
        MOut::Unj(_) => "unjudged",
    }));
    obs.out
}

fn c11_tree(ctx: &mut Ctx, tree: &Value) {
    let paths = all_paths(tree);
    let sentinel = json!({"__sentinel__": 987654321});
    // whole-data forms
    for rule in [json!({"var": []}), json!({"var": ""}), json!({"var": null}), json!({"var": [""]}), json!({"var": [null, "dflt"]}), json!({"var": ["", "dflt"]})] {
        let out = c11_case(ctx, &rule, tree, "whole-data");
        ctx.mon("c11.whole-data").observed += 1;
        ctx.mon("c11.whole-data").judged += 1;
        if !matches!(&out, Outcome::Ok(v) if v.to_string() == tree.to_string()) {
            ctx.violation("c11.whole-data", "whole-data", &rule, tree, json!({"ok": tree}), out.brief(), "null / empty / operand-less var did not return the entire data");
        }
    }
    for (segs, node) in paths.iter() {
        if segs.last().map(|s| s.is_empty()).unwrap_or(true) {
            continue; // a trailing empty key cannot be written as a path
        }
        let p = path_of(segs);
        if p.is_empty() {
            continue;
        }
        // derived path: must be found and equal to that node (needs no model)
        let rule = json!({ "var": p });
        let out = c11_case(ctx, &rule, tree, "derived-path");
        ctx.mon("c11.derived-path").observed += 1;
        ctx.mon("c11.derived-path").judged += 1;
        if !matches!(&out, Outcome::Ok(v) if v.to_string() == node.to_string()) {
            ctx.violation("c11.derived-path", &format!("derived-path:depth{}", segs.len().min(4)), &rule, tree, json!({"ok": node}), out.brief(), "the path of an existing node did not resolve to that node");
        }
        // present (even null) wins over the default
        let rule_d = json!({"var": [p, sentinel]});
        let out_d = c11_case(ctx, &rule_d, tree, "present-with-default");
        ctx.mon("c11.default").observed += 1;
        ctx.mon("c11.default").judged += 1;
        if !matches!(&out_d, Outcome::Ok(v) if v.to_string() == node.to_string()) {
            ctx.violation("c11.default", &format!("default-over-present:{}", type_name(node)), &rule_d, tree, json!({"ok": node}), out_d.brief(), "a present value was not returned in preference to the default");
        }
        // computed key
        let halves = p.chars().count() / 2;
        let (h1, h2): (String, String) = (p.chars().take(halves).collect(), p.chars().skip(halves).collect());
        c11_case(ctx, &json!({"var": [{"cat": [h1, h2]}]}), tree, "computed-key");
        // frame law: mutate off-path subtrees, the result must not change
        if ctx.rng.chance(1, 2) {
            let mut mutated = tree.clone();
            let mut did = 0;
            for _ in 0..3 {
                let (q, _) = &paths[ctx.rng.below(paths.len())];
                let n = q.len().min(segs.len());
                let diverges = (0..n).any(|i| q[i] != segs[i]);
                if diverges {
                    let nv = rand_value(&mut ctx.rng, 2);
                    mutated = replace_at(&mutated, q, &nv);
                    did += 1;
                }
            }
            if did > 0 {
                let out2 = ctx.observe(&rule, &mutated).out;
                ctx.mon("c11.frame").observed += 1;
                ctx.mon("c11.frame").judged += 1;
                let same = match (&out, &out2) {
                    (Outcome::Ok(a), Outcome::Ok(b)) => a.to_string() == b.to_string(),
                    (Outcome::Err(_), Outcome::Err(_)) => true,
                    _ => false,
                };
                if !same {
                    ctx.violation("c11.frame", "frame", &rule, &mutated, out.brief(), out2.brief(), "changing data not named by the path changed the result");
                }
            }
        }
        let nontrivial = segs.len() >= 2 || p.contains('\\') || matches!(node, Value::Null);
        if nontrivial {
            ctx.mark_nontrivial(&rule, tree);
        }
        // the same segments joined in the syntax of *other* path languages name no node (unless
        // such a key exists - the model knows): JSON Pointer, JSONPath, arrows, brackets
        if segs.len() >= 2 && segs.iter().all(|x| !x.is_empty()) && ctx.rng.chance(1, 3) {
            let plain: Vec<String> = segs.iter().map(|x| x.to_string()).collect();
            for foreign in [plain.join("/"), format!("/{}", plain.join("/")), plain.join("~1"), plain.join("->"), format!("$.{}", plain.join(".")), format!("{}[{}]", plain[0], plain[1..].join("][")), plain.join(":"), plain.join("|"), plain.join("\\/")] {
                c11_case(ctx, &json!({"var": [foreign, "DEFAULT"]}), tree, "foreign-syntax");
            }
        }
        // composition (needs no model): resolving `prefix ++ rest` on the tree is resolving `rest`
        // on the node the prefix names - for ANY spelling of `rest`, also those whose meaning the
        // statement leaves open (non-canonical index spellings, foreign syntax)
        if ctx.rng.chance(1, 2) {
            let mut rests: Vec<String> = vec!["0".into(), "1".into(), "-1".into(), "00".into(), "01".into(), "+0".into(), "+1".into(), "-0".into(), "-01".into(), "1.0".into(), "1e0".into(), " 1".into(), "1 ".into(), "k".into(), "0.0".into(), "0.00".into(), "-1.-1".into(), "0.-01".into(), "1.+0".into(), "a/b".into(), "~0".into(), "[0]".into(), "*".into(), "length".into()];
            if let Value::Object(m) = node {
                for k in m.keys().take(3) {
                    rests.push(path_of(&[k.clone()]));
                }
            }
            let k1 = ctx.rng.below(rests.len());
            let k2 = ctx.rng.below(rests.len());
            // a character picked from a string is a node too (a one-character string)
            let (p, node): (String, Value) = match node {
                Value::String(st) if !st.is_empty() && ctx.rng.chance(1, 2) => {
                    let cs: Vec<char> = st.chars().collect();
                    let i = ctx.rng.below(cs.len());
                    (format!("{}.{}", p, i), Value::String(cs[i].to_string()))
                }
                other => (p.clone(), other.clone()),
            };
            let node = &node;
            for rest in [rests[k1].clone(), rests[k2].clone()] {
                let full = format!("{}.{}", p, rest);
                let a = ctx.observe(&json!({"var": [full, sentinel]}), tree).out;
                let b = ctx.observe(&json!({"var": [rest, sentinel]}), node).out;
                ctx.mon("c11.composition").observed += 1;
                ctx.mon("c11.composition").judged += 1;
                let same = match (&a, &b) {
                    (Outcome::Ok(x), Outcome::Ok(y)) => x.to_string() == y.to_string(),
                    (Outcome::Err(_), Outcome::Err(_)) => true,
                    _ => false,
                };
                if !same {
                    ctx.violation("c11.composition", &format!("composition:{}", type_name(node)), &json!({"var": [full, sentinel]}), tree, json!({"same path tail on the named node": b.brief()}), a.brief(), "resolving prefix.rest on the data differs from resolving rest on the node that prefix names");
                }
            }
        }
        // perturbed paths: one segment changed / index moved out of range -> absent -> default
        let mut pert = segs.clone();
        let i = ctx.rng.below(pert.len());
        pert[i] = match ctx.rng.below(5) {
            0 => format!("{}~", pert[i]),
            1 => "9999".to_string(),
            2 => "-9999".to_string(),
            3 => i64::MIN.to_string(),
            _ => i64::MAX.to_string(),
        };
        let pp = path_of(&pert);
        c11_case(ctx, &json!({"var": [pp, "DEFAULT"]}), tree, "perturbed");
        c11_case(ctx, &json!({ "var": pp }), tree, "perturbed");
    }
    // indices into arrays and strings at every node that is one: -len-1 ..= len, as integer keys and as path segments
    let mut nodes: Vec<(Vec<String>, Value)> = vec![(vec![], tree.clone())];
    nodes.extend(paths.iter().cloned());
    for (segs, node) in nodes.iter() {
        let len = match node {
            Value::Array(a) => a.len() as i64,
            Value::String(s) => s.chars().count() as i64,
            Value::Object(_) => 2,
            _ => continue,
        };
        if segs.last().map(|s| s.is_empty()).unwrap_or(false) {
            continue;
        }
        let prefix = path_of(segs);
        for i in (-len - 2)..=(len + 1) {
            if segs.is_empty() {
                // integer key straight into the data
                let rule = json!({ "var": i });
                c11_case(ctx, &rule, tree, "integer-key");
                c11_case(ctx, &json!({"var": [i, "DEFAULT"]}), tree, "integer-key");
                let multibyte = matches!(node, Value::String(s) if s.len() != s.chars().count());
                if multibyte || i < 0 {
                    ctx.mark_nontrivial(&rule, tree);
                }
                c11_case(ctx, &json!({ "var": i.to_string() }), tree, "index-segment");
            } else {
                let rule = json!({ "var": format!("{}.{}", prefix, i) });
                c11_case(ctx, &rule, tree, "index-segment");
                if i < 0 || i >= len - 1 {
                    ctx.mark_nontrivial(&rule, tree);
                }
            }
        }
    }
    // a character of a string is a one-character string: it can be indexed again (0 and -1 only)
    for (segs, node) in nodes.iter() {
        if let Value::String(st) = node {
            if segs.last().map(|s| s.is_empty()).unwrap_or(false) {
                continue;
            }
            let n = st.chars().count() as i64;
            let prefix = path_of(segs);
            for i in [-n, -1, 0, n - 1] {
                if n == 0 {
                    break;
                }
                for j in [-2i64, -1, 0, 1] {
                    for l in [None, Some(-1i64), Some(0), Some(1)] {
                        let mut p = if prefix.is_empty() { format!("{}.{}", i, j) } else { format!("{}.{}.{}", prefix, i, j) };
                        if let Some(l) = l {
                            p = format!("{}.{}", p, l);
                        }
                        let rule = json!({"var": [p, "DEFAULT"]});
                        c11_case(ctx, &rule, tree, "index-into-character");
                        ctx.mark_nontrivial(&rule, tree);
                    }
                }
            }
        }
    }
    // escaping is harmless: a backslash in front of ANY character of a derived path (not only
    // dots and backslashes) still names the same node
    for (segs, node) in paths.iter() {
        if segs.last().map(|s| s.is_empty()).unwrap_or(true) || ctx.rng.chance(1, 2) {
            continue;
        }
        let over: String = segs
            .iter()
            .map(|seg| {
                let mut o = String::new();
                for c in seg.chars() {
                    if c == '.' || c == '\\' || ctx.rng.chance(1, 3) {
                        o.push('\\');
                    }
                    o.push(c);
                }
                o
            })
            .collect::<Vec<_>>()
            .join(".");
        // an escaped digit is still a digit; an escaped minus sign in an index is left alone
        let rule = json!({ "var": over });
        let out = c11_case(ctx, &rule, tree, "over-escaped-path");
        ctx.mon("c11.derived-path").observed += 1;
        ctx.mon("c11.derived-path").judged += 1;
        if !matches!(&out, Outcome::Ok(v) if v.to_string() == node.to_string()) {
            ctx.violation("c11.derived-path", "over-escaped-path", &rule, tree, json!({"ok": node}), out.brief(), "a path with additional (redundant) escapes did not resolve to the same node");
        }
        ctx.mark_nontrivial(&rule, tree);
    }
    for k in [i64::MIN, i64::MIN + 1, i64::MAX, -1, 0] {
        c11_case(ctx, &json!({ "var": k }), tree, "integer-key-extreme");
        c11_case(ctx, &json!({ "var": k.to_string() }), tree, "integer-key-extreme");
        c11_case(ctx, &json!({ "var": format!("arr.{}", k) }), tree, "integer-key-extreme");
    }
}

fn c11_core(ctx: &mut Ctx) {
    let mut idx = 0u64;
    for t in fixed_trees() {
        idx += 1;
        if ctx.mine(idx) {
            c11_tree(ctx, &t);
        }
    }
    // hostile key spellings on fixed data
    let d = fixed_trees().remove(0);
    for k in ["a.b", "a\\.b", "a\\\\b", "a\\b", "a.b.c", "a.b.c.d", "arr.1.0", "arr.1.-1", "arr.-1", "arr.-5", "arr.-6", "arr.5", "arr.2.k", "s.0", "s.1", "s.-1", "s.5", "s.6", "s.-6", "s.-7",
              ".", "..", "a.", ".a", "a..b", "\\", "a\\", ".q", "..q", "x", "x.y", "e", "e.0", "z", "z.0", "0", "-1", "n.1", "n.01", "arr.01", "arr.+1", "arr.1.", "arr. 1", "arr.1e0", "arr.-0", "é.日", "é.日.x",
              "\\é.日", "é.\\日", "\\a", "a\\.b\\", "\\😀", "arr.\\1", "s.\\0", "\\arr.1", "a\\😀b", "arr.18446744073709551616", "arr.9223372036854775808", "arr.-9223372036854775809", "s.١", "arr.1_0"] {
        idx += 1;
        if ctx.mine(idx) {
            c11_case(ctx, &json!({ "var": k }), &d, "spelling");
            c11_case(ctx, &json!({"var": [k, "DEFAULT"]}), &d, "spelling");
        }
    }
    // key types
    for k in ["1.5", "1.0", "1e0", "9223372036854775808", "true", "[\"a\"]", "{\"a\":1}", "[]", "-0.0"] {
        idx += 1;
        if ctx.mine(idx) {
            c11_case(ctx, &json!({"var": [parse(k)]}), &d, "odd-key-type");
            c11_case(ctx, &json!({"var": [parse(k), 1]}), &json!([1, 2]), "odd-key-type");
        }
    }
    // defaults: literal, computed, null-valued targets
    for (rule, data) in [
        (json!({"var": ["zz", {"var": "a"}]}), json!({"a": 7})),
        (json!({"var": ["zz", {"var": "x"}]}), json!({"x": {"var": "secret"}, "secret": 42})),
        (json!({"var": ["x", 5]}), json!({"x": null})),
        (json!({"var": ["x.y", 5]}), json!({"x": null})),
        (json!({"var": ["x.y", null]}), json!({"x": {"y": false}})),
        (json!({"var": [{"var": "k"}, {"var": "d"}]}), json!({"k": "v.0", "v": [null], "d": "D"})),
        (json!({"var": [{"var": "k"}, {"var": "d"}]}), json!({"k": "v.1", "v": [null], "d": "D"})),
    ] {
        idx += 1;
        if ctx.mine(idx) {
            c11_case(ctx, &rule, &data, "default");
            ctx.mark_nontrivial(&rule, &data);
        }
    }
    ctx.exhaustive_parts.push("every node path of 10 fixed hostile trees (derived path, default, computed key, perturbation), every index -len-2..len+1 at every array / string node, 53 key spellings".into());
    let n = ctx.budget(250, 50_000);
    for _ in 0..n {
        let t = rand_data(&mut ctx.rng, 4, 8, &mut 0);
        c11_tree(ctx, &t);
        if ctx.rng.chance(1, 4) {
            ctx.sample(json!({"tree": t, "paths": all_paths(&t).len()}));
        }
    }
}

// =======================================================================================
// C12

fn sentinel() -> Value {
    json!({"__sentinel__": 987654321})
}

/// "absent" according to the implementation's own `var` (sentinel default trick).
fn var_says_absent(ctx: &mut Ctx, data: &Value, key: &Value) -> Option<bool> {
    let direct = json!({"var": [key, sentinel()]});
    if refsem::as_op(key).is_some() || key.is_array() {
        return None;
    }
    match ctx.observe(&direct, data).out {
        Outcome::Ok(v) => Some(v == sentinel()),
        _ => None,
    }
}

fn c12_missing(ctx: &mut Ctx, data: &Value, keys: &[Value], form: usize) {
    let rule = match form {
        0 => json!({ "missing": keys }),
        1 => json!({"missing": [keys]}),
        2 => json!({"missing": [keys, "ignored-extra", "zz"]}),
        3 => json!({"missing": {"merge": [keys]}}),
        _ => json!({"missing": [{"var": "__keys"}]}),
    };
    let mut data = data.clone();
    if form == 4 {
        match &mut data {
            Value::Object(m) => {
                m.insert("__keys".into(), Value::Array(keys.to_vec()));
            }
            _ => return,
        }
    }
    if form == 0 && keys.first().map(|k| k.is_array()).unwrap_or(false) {
        return;
    }
    let (obs, mo) = ctx.check("c12.missing.model", &rule, &data);
    ctx.cell(&format!("missing:form{}:{}", form, match mo {
        MOut::Val(_) => "value",
        MOut::Err => "err",
        MOut::Unj(_) => "unjudged",
    }));
    // agreement with var (a relation between two operators; no model involved)
    if let Outcome::Ok(Value::Array(got)) = &obs.out {
        let mut want: Vec<Value> = Vec::new();
        let mut decidable = true;
        for k in keys {
            if k.is_null() {
                continue;
            }
            match var_says_absent(ctx, &data, k) {
                Some(true) => want.push(k.clone()),
                Some(false) => {}
                None => decidable = false,
            }
        }
        ctx.mon("c12.missing.var-agreement").observed += 1;
        if decidable {
            ctx.mon("c12.missing.var-agreement").judged += 1;
            if Value::Array(want.clone()).to_string() != Value::Array(got.clone()).to_string() {
                ctx.violation("c12.missing.var-agreement", &format!("missing-vs-var:form{}", form), &rule, &data, json!(want), obs.out.brief(), "missing does not report exactly the keys that var cannot find");
            }
        }
    }
    let has_dup = keys.iter().enumerate().any(|(i, k)| keys[..i].contains(k));
    let has_null = keys.iter().any(|k| k.is_null());
    let null_valued = keys.iter().any(|k| matches!(refsem::lookup(&data, k), refsem::Look::Present(Value::Null)) && !k.is_null());
    if has_dup || has_null || null_valued {
        ctx.mark_nontrivial(&rule, &data);
        if has_dup { ctx.cell("missing:duplicate-keys"); }
        if has_null { ctx.cell("missing:null-key"); }
        if null_valued { ctx.cell("missing:null-valued-present-key"); }
    }
}

fn c12_some(ctx: &mut Ctx, data: &Value, need: u64, keys: &[Value], computed: bool) {
    let rule = if computed { json!({"missing_some": [need, {"merge": [keys]}]}) } else { json!({"missing_some": [need, keys]}) };
    let (obs, mo) = ctx.check("c12.missing_some.model", &rule, data);
    ctx.cell(&format!("missing_some:need={}:{}", need.min(7), match &mo {
        MOut::Val(Value::Array(a)) if a.is_empty() => "met",
        MOut::Val(_) => "not-met",
        MOut::Err => "err",
        MOut::Unj(_) => "unjudged",
    }));
    // laws against the implementation's own var: an absent key never counts as present
    if let Outcome::Ok(Value::Array(got)) = &obs.out {
        let mut present_mult = 0u64;
        let mut present_distinct: Vec<&Value> = Vec::new();
        let mut absent_distinct: Vec<Value> = Vec::new();
        let mut decidable = true;
        for k in keys {
            if k.is_null() {
                continue;
            }
            match var_says_absent(ctx, data, k) {
                Some(true) => {
                    if !absent_distinct.contains(k) {
                        absent_distinct.push(k.clone());
                    }
                }
                Some(false) => {
                    present_mult += 1;
                    if !present_distinct.contains(&k) {
                        present_distinct.push(k);
                    }
                }
                None => decidable = false,
            }
        }
        ctx.mon("c12.missing_some.laws").observed += 1;
        if decidable {
            ctx.mon("c12.missing_some.laws").judged += 1;
            let nulls = keys.iter().filter(|k| k.is_null()).count() as u64;
            // upper bound on any reading of "number of listed keys present"
            let max_present = present_mult + nulls;
            let min_present = present_distinct.len() as u64;
            if max_present < need && Value::Array(got.clone()).to_string() != Value::Array(absent_distinct.clone()).to_string() {
                ctx.violation("c12.missing_some.laws", "absent-counted-as-present", &rule, data, json!(absent_distinct), obs.out.brief(), "fewer than the required number of keys are present, yet the distinct missing keys were not returned");
            }
            if present_mult >= need && !got.is_empty() {
                ctx.violation("c12.missing_some.laws", "met-by-listed-entries-but-nonempty", &rule, data, json!([]), obs.out.brief(), "enough listed keys (counting every listing) are present but the result is not empty");
            }
            if min_present >= need && !got.is_empty() {
                ctx.violation("c12.missing_some.laws", "met-but-nonempty", &rule, data, json!([]), obs.out.brief(), "enough keys are present but the result is not empty");
            }
            if !got.is_empty() && Value::Array(got.clone()).to_string() != Value::Array(absent_distinct.clone()).to_string() {
                ctx.violation("c12.missing_some.laws", "not-the-distinct-missing-keys", &rule, data, json!(absent_distinct), obs.out.brief(), "a non-empty result is not the distinct missing keys in order");
            }
        }
    }
    let has_dup = keys.iter().enumerate().any(|(i, k)| keys[..i].contains(k));
    if has_dup || need == 0 || need > 2 || keys.iter().any(|k| k.is_null()) {
        ctx.mark_nontrivial(&rule, data);
        if has_dup { ctx.cell("missing_some:duplicate-keys"); }
    }
}

fn c12_core(ctx: &mut Ctx) {
    let trees = vec![
        json!({}),
        json!({"a": 1, "b": null, "c": "", "d": [], "e": {"f": 0, "g": null}, "arr": [1, null], "0": "z", "a.b": 1}),
        json!({"b": 1}),
        json!([10, null, "x"]),
        json!(null),
        json!("str"),
    ];
    let key_pool: Vec<Value> = vec![json!("a"), json!("b"), json!("c"), json!("d"), json!("zz"), json!("e.f"), json!("e.g"), json!("e.h"), json!("arr.1"), json!("arr.2"), json!("arr.-1"), json!(0), json!(1), json!(5), json!(-1), Value::Null, json!(""), json!("a\\.b"), json!("a.b"), json!("yy")];
    let mut idx = 0u64;
    // exhaustive: all key lists of length 0..2 over the pool, and lists with duplicates of length 3
    for t in trees.iter() {
        c12_missing(ctx, t, &[], 0);
        for a in key_pool.iter() {
            for form in 0..5 {
                idx += 1;
                if ctx.mine(idx) {
                    c12_missing(ctx, t, &[a.clone()], form);
                }
            }
            for b in key_pool.iter() {
                idx += 1;
                if !ctx.mine(idx) {
                    continue;
                }
                c12_missing(ctx, t, &[a.clone(), b.clone()], (idx % 5) as usize);
                c12_missing(ctx, t, &[a.clone(), b.clone(), a.clone()], 1);
                for need in 0..=4u64 {
                    c12_some(ctx, t, need, &[a.clone(), b.clone()], false);
                    c12_some(ctx, t, need, &[a.clone(), a.clone()], false);
                    c12_some(ctx, t, need, &[a.clone(), b.clone(), a.clone()], need % 2 == 0);
                    c12_some(ctx, t, need, &[b.clone(), a.clone(), a.clone(), b.clone()], false);
                }
            }
        }
    }
    // hostile key spellings (also those whose path meaning the statements leave open) on every tree
    // and on scalar / empty data: whatever `var` makes of a key, `missing` must agree with it
    let hostile: Vec<Value> = ["\\", "a\\", "\\\\", "\\.", ".", "..", "a.", ".a", "a..b", " ", "0.", ".0", "-0", "00", "+1", "1e0", "1.0", "a/b", "~", "e.", "e..f", "arr.", "arr.01", "arr.+1", "arr.-0", "arr.1.", "0.0", "\\0", "a\\.b\\", "é", "\\é"].iter().map(|k| json!(k)).collect();
    let mut more_trees = trees.clone();
    more_trees.extend([json!(5), json!(true), json!(""), json!([]), json!(0), json!("é日"), json!([[1]]), json!({"": 1, "\\": 2, ".": 3, " ": 4, "a/b": 5, "~": 6, "é": 7})]);
    for t in more_trees.iter() {
        for k in hostile.iter().chain(key_pool.iter()) {
            idx += 1;
            if !ctx.mine(idx) {
                continue;
            }
            c12_missing(ctx, t, &[k.clone()], 0);
            c12_missing(ctx, t, &[k.clone(), json!("zz"), k.clone()], 1);
            c12_some(ctx, t, 1, &[k.clone()], false);
            c12_some(ctx, t, 2, &[k.clone(), json!("zz")], false);
        }
    }
    ctx.exhaustive_parts.push("6 data trees x all key lists of length <= 2 (and duplicate patterns aba / aa / baab) over a 20-key pool x thresholds 0..4 x 5 ways of supplying the list; 31 hostile key spellings x 14 trees incl. scalar data".into());
    // odd operands
    for (rule, data) in [
        (json!({"missing_some": [1, "a"]}), json!({})),
        (json!({"missing_some": [-1, ["a"]]}), json!({})),
        (json!({"missing_some": [1.5, ["a"]]}), json!({})),
        (json!({"missing_some": ["1", ["a"]]}), json!({})),
        (json!({"missing_some": [1, [true]]}), json!({})),
        (json!({"missing_some": [1, ["a", [1]]]}), json!({"a": 1})),
        (json!({"missing": [[]]}), json!({})),
        (json!({"missing": [true]}), json!({})),
        (json!({"missing": [1.5]}), json!([1, 2])),
        (json!({"missing": "a"}), json!({})),
        (json!({"missing": {"var": "need"}}), json!({"need": ["a", "b"], "a": 1})),
    ] {
        ctx.check("c12.missing.model", &rule, &data);
    }
    let n = ctx.budget(6_000, 800_000);
    for _ in 0..n {
        let t = rand_data(&mut ctx.rng, 3, 0, &mut 0);
        let k = ctx.rng.below(7);
        let mut keys: Vec<Value> = Vec::new();
        for _ in 0..k {
            let r = &mut ctx.rng;
            let key = match r.below(10) {
                0 => Value::Null,
                1 => json!(r.range(-3, 3)),
                2 if !keys.is_empty() => keys[r.below(keys.len())].clone(),
                3 => r.pick(&key_pool).clone(),
                _ => Value::String(rand_path(r, &t)),
            };
            keys.push(key);
        }
        let form = ctx.rng.below(5);
        c12_missing(ctx, &t, &keys, form);
        let need = ctx.rng.below(k + 2) as u64;
        let computed = ctx.rng.chance(1, 4);
        c12_some(ctx, &t, need, &keys, computed);
        if ctx.rng.chance(1, 50) {
            ctx.sample(json!({"data": t, "keys": keys, "need": need}));
        }
    }
}

pub fn c11(ctx: &mut Ctx) {
    c11_core(ctx);
    crate::props_sizes::c11(ctx);
}

pub fn c12(ctx: &mut Ctx) {
    c12_core(ctx);
    crate::props_sizes::c12(ctx);
}
