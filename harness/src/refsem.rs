//! Reference semantics: an independent, single-pass interpreter written from the
//! *property statements* in /verif/properties.jsonl (not from the code in /repo).
//!
//! Three-valued: `Val(v)` / `Err` / `Unj(reason)`.  `Unj` means "the statements do not
//! determine the outcome for this input" - such cases are executed and checked for
//! totality only, never for their value.
//!
//! Besides the value the model predicts the `log` trace.  Every predicted line is either
//! required or optional (optional: the statements allow, but do not require, that the
//! operand is evaluated - e.g. a `var` default whose key is present, the siblings of an
//! erroring eager operand, element expressions after the deciding element of `all`).

use serde_json::{Map, Number, Value};

#[derive(Debug, Clone, PartialEq)]
pub enum MOut {
    Val(Value),
    Err,
    Unj(&'static str),
}

#[derive(Debug, Clone)]
pub struct LogEv {
    pub line: String,
    pub optional: bool,
}

#[derive(Debug, Clone)]
pub struct Trace {
    pub evs: Vec<LogEv>,
    /// false when two sibling operands of an eager operator both logged: the statements
    /// do not fix the order in which eager operands are evaluated.
    pub order_known: bool,
    opt_depth: u32,
    /// number of operator applications performed by the model (a size statistic)
    pub steps: u64,
}

impl Trace {
    pub fn new() -> Trace {
        Trace { evs: Vec::new(), order_known: true, opt_depth: 0, steps: 0 }
    }
    fn log(&mut self, line: String) {
        self.evs.push(LogEv { line, optional: self.opt_depth > 0 });
    }
    fn enter_opt(&mut self) {
        self.opt_depth += 1;
    }
    fn leave_opt(&mut self) {
        self.opt_depth -= 1;
    }
    pub fn required(&self) -> Vec<&str> {
        self.evs.iter().filter(|e| !e.optional).map(|e| e.line.as_str()).collect()
    }
    pub fn has_optional(&self) -> bool {
        self.evs.iter().any(|e| e.optional)
    }
}

// ---------------------------------------------------------------------------------------
// operator table of the statements (C02 / C03)

pub fn arity_ok(op: &str, n: usize) -> Option<bool> {
    Some(match op {
        "==" | "!=" | "===" | "!==" | "/" | "%" | "in" | "map" | "filter" | "all" | "some"
        | "none" | "missing_some" => n == 2,
        "<" | "<=" | ">" | ">=" | "substr" => n == 2 || n == 3,
        "reduce" => n == 3,
        "!" | "!!" | "log" => n == 1,
        "-" => n == 1 || n == 2,
        "var" => n <= 2,
        "*" | "max" | "min" | "and" | "or" => n >= 1,
        "+" | "cat" | "merge" | "missing" | "if" | "?:" => true,
        _ => return None,
    })
}

pub fn is_operator(name: &str) -> bool {
    arity_ok(name, 1).is_some()
}

/// `Some((op, operand))` iff the value is an operation by C02.
pub fn as_op(v: &Value) -> Option<(&str, &Value)> {
    match v {
        Value::Object(m) if m.len() == 1 => {
            let (k, a) = m.iter().next().unwrap();
            if is_operator(k) {
                Some((k.as_str(), a))
            } else {
                None
            }
        }
        _ => None,
    }
}

fn operands(a: &Value) -> Vec<&Value> {
    match a {
        Value::Array(xs) => xs.iter().collect(),
        x => vec![x],
    }
}

/// Does the rule text contain an operation with an undocumented operand count anywhere
/// in a code position?
pub fn statically_invalid(rule: &Value) -> bool {
    match as_op(rule) {
        None => false,
        Some((op, a)) => {
            let args = operands(a);
            if arity_ok(op, args.len()) != Some(true) {
                return true;
            }
            for (i, x) in args.iter().enumerate() {
                if statically_invalid(x) {
                    return true;
                }
                if i == 0 && matches!(op, "all" | "some" | "none") {
                    if let Value::Array(els) = x {
                        if els.iter().any(statically_invalid) {
                            return true;
                        }
                    }
                }
            }
            false
        }
    }
}

// ---------------------------------------------------------------------------------------
// conversions (C06, C07, C09, C10, C16)

pub fn truthy(v: &Value) -> bool {
    match v {
        Value::Null => false,
        Value::Bool(b) => *b,
        Value::Number(n) => n.as_f64().map(|f| f != 0.0).unwrap_or(true),
        Value::String(s) => !s.is_empty(),
        Value::Array(a) => !a.is_empty(),
        Value::Object(_) => true,
    }
}

pub fn num_f64(n: &Number) -> f64 {
    n.as_f64().unwrap_or(f64::NAN)
}

/// JavaScript-style string form with the number's JSON text (C07 / C16).
pub fn to_str(v: &Value) -> String {
    match v {
        Value::Null => "null".into(),
        Value::Bool(b) => if *b { "true".into() } else { "false".into() },
        Value::Number(n) => n.to_string(),
        Value::String(s) => s.clone(),
        Value::Array(a) => a
            .iter()
            .map(|x| if x.is_null() { String::new() } else { to_str(x) })
            .collect::<Vec<_>>()
            .join(","),
        Value::Object(_) => "[object Object]".into(),
    }
}

/// ECMAScript StrWhiteSpaceChar (WhiteSpace + LineTerminator): the statements say "JavaScript's
/// string-to-number rules", so this set is authoritative - it contains U+FEFF and does not
/// contain U+0085 (Rust's `char::is_whitespace` differs on exactly these two).
fn ws_es(c: char) -> bool {
    matches!(c,
        '\u{9}' | '\u{A}' | '\u{B}' | '\u{C}' | '\u{D}' | ' ' | '\u{A0}' | '\u{1680}'
        | '\u{2000}'..='\u{200A}' | '\u{2028}' | '\u{2029}' | '\u{202F}' | '\u{205F}' | '\u{3000}' | '\u{FEFF}')
}

#[derive(Debug, Clone, Copy, PartialEq)]
pub enum SN {
    Num(f64),
    Unj(&'static str),
}

/// Length (in chars) of the longest prefix of `cs` matching StrDecimalLiteral
/// (`[+-]? (Infinity | D+ (. D*)? Exp? | . D+ Exp?)`), and its value.
fn scan_decimal(cs: &[char]) -> Option<(usize, f64)> {
    let mut i = 0;
    let mut neg = false;
    if i < cs.len() && (cs[i] == '+' || cs[i] == '-') {
        neg = cs[i] == '-';
        i += 1;
    }
    let inf: Vec<char> = "Infinity".chars().collect();
    if cs.len() >= i + inf.len() && cs[i..i + inf.len()] == inf[..] {
        return Some((i + inf.len(), if neg { f64::NEG_INFINITY } else { f64::INFINITY }));
    }
    let int_start = i;
    while i < cs.len() && cs[i].is_ascii_digit() {
        i += 1;
    }
    let int_digits: String = cs[int_start..i].iter().collect();
    let mut frac_digits = String::new();
    let mut end = i;
    if i < cs.len() && cs[i] == '.' {
        let mut j = i + 1;
        while j < cs.len() && cs[j].is_ascii_digit() {
            j += 1;
        }
        let fd: String = cs[i + 1..j].iter().collect();
        if !int_digits.is_empty() || !fd.is_empty() {
            frac_digits = fd;
            end = j;
        }
    }
    if int_digits.is_empty() && frac_digits.is_empty() {
        return None;
    }
    // exponent, only if complete
    let mut exp = String::new();
    if end < cs.len() && (cs[end] == 'e' || cs[end] == 'E') {
        let mut j = end + 1;
        let mut es = String::new();
        if j < cs.len() && (cs[j] == '+' || cs[j] == '-') {
            es.push(cs[j]);
            j += 1;
        }
        let ds = j;
        while j < cs.len() && cs[j].is_ascii_digit() {
            j += 1;
        }
        if j > ds {
            let d: String = cs[ds..j].iter().collect();
            exp = format!("{}{}", es, d);
            end = j;
        }
    }
    let canon = format!(
        "{}{}.{}e{}",
        if neg { "-" } else { "" },
        if int_digits.is_empty() { "0" } else { &int_digits },
        if frac_digits.is_empty() { "0" } else { &frac_digits },
        if exp.is_empty() { "0" } else { &exp }
    );
    // Rust's dec2flt is correctly rounded; an exponent with absurdly many digits is
    // clamped by hand because `parse` may reject what ES accepts.
    let val = match canon.parse::<f64>() {
        Ok(v) => v,
        Err(_) => return None,
    };
    Some((end, val))
}

/// ECMAScript StringToNumber (the `Number(s)` conversion). NaN = not numeric.
pub fn string_to_number(s: &str) -> SN {
    let t = s.trim_matches(ws_es);
    if t.is_empty() {
        return SN::Num(0.0);
    }
    let cs: Vec<char> = t.chars().collect();
    if cs.len() >= 2 && cs[0] == '0' {
        let radix = match cs[1] {
            'x' | 'X' => 16,
            'o' | 'O' => 8,
            'b' | 'B' => 2,
            _ => 0,
        };
        if radix != 0 {
            let ds = &cs[2..];
            if ds.is_empty() || !ds.iter().all(|c| c.is_digit(radix)) {
                return SN::Num(f64::NAN);
            }
            let mut acc: u128 = 0;
            for c in ds {
                acc = match acc.checked_mul(radix as u128).and_then(|a| a.checked_add(c.to_digit(radix).unwrap() as u128)) {
                    Some(a) => a,
                    None => return SN::Unj("radix literal beyond 128 bits"),
                };
            }
            // the mathematical value, rounded once to the nearest double (u128 -> f64 is
            // round-to-nearest-even); literals beyond 128 bits are unjudged above
            return SN::Num(acc as f64);
        }
    }
    match scan_decimal(&cs) {
        Some((n, v)) if n == cs.len() => SN::Num(v),
        _ => SN::Num(f64::NAN),
    }
}

/// ECMAScript parseFloat on a string. NaN = no numeric prefix.
pub fn parse_float_js(s: &str) -> SN {
    let cs: Vec<char> = s.trim_start_matches(ws_es).chars().collect();
    match scan_decimal(&cs) {
        Some((_, v)) => SN::Num(v),
        None => SN::Num(f64::NAN),
    }
}

/// parseFloat of an arbitrary JSON value, through its string form (C10: `+`, `*`).
pub fn parse_float_value(v: &Value) -> SN {
    match v {
        Value::Number(n) => SN::Num(num_f64(n)),
        Value::String(s) => parse_float_js(s),
        other => parse_float_js(&to_str(other)),
    }
}

/// Number-style conversion (C09, C10: `-`, `/`, `%`, `min`, `max`).
pub fn to_number(v: &Value) -> SN {
    match v {
        Value::Null => SN::Num(0.0),
        Value::Bool(b) => SN::Num(if *b { 1.0 } else { 0.0 }),
        Value::Number(n) => SN::Num(num_f64(n)),
        Value::String(s) => string_to_number(s),
        other => string_to_number(&to_str(other)),
    }
}

pub fn es_eq(a: &Value, b: &Value) -> Result<bool, &'static str> {
    use Value::*;
    Ok(match (a, b) {
        (Null, Null) => true,
        (Null, _) | (_, Null) => false,
        (Number(x), Number(y)) => num_f64(x) == num_f64(y),
        (String(x), String(y)) => x == y,
        (Bool(x), Bool(y)) => x == y,
        (Number(x), String(y)) | (String(y), Number(x)) => match string_to_number(y) {
            SN::Num(f) => num_f64(x) == f,
            SN::Unj(r) => return Err(r),
        },
        (Bool(x), _) => return es_eq(&Value::from(if *x { 1 } else { 0 }), b),
        (_, Bool(y)) => return es_eq(a, &Value::from(if *y { 1 } else { 0 })),
        (Array(_), Array(_)) | (Array(_), Object(_)) | (Object(_), Array(_)) | (Object(_), Object(_)) => false,
        (Array(_), _) | (Object(_), _) => return es_eq(&Value::String(to_str(a)), b),
        (_, Array(_)) | (_, Object(_)) => return es_eq(a, &Value::String(to_str(b))),
    })
}

pub fn es_strict(a: &Value, b: &Value) -> bool {
    use Value::*;
    match (a, b) {
        (Null, Null) => true,
        (Bool(x), Bool(y)) => x == y,
        (Number(x), Number(y)) => num_f64(x) == num_f64(y),
        (String(x), String(y)) => x == y,
        _ => false,
    }
}

enum Prim {
    S(String),
    N(f64),
}
fn to_prim(v: &Value) -> Prim {
    match v {
        Value::Null => Prim::N(0.0),
        Value::Bool(b) => Prim::N(if *b { 1.0 } else { 0.0 }),
        Value::Number(n) => Prim::N(num_f64(n)),
        Value::String(s) => Prim::S(s.clone()),
        other => Prim::S(to_str(other)),
    }
}

/// op in {"<", "<=", ">", ">="}
pub fn es_rel(op: &str, a: &Value, b: &Value) -> Result<bool, &'static str> {
    let (pa, pb) = (to_prim(a), to_prim(b));
    if let (Prim::S(x), Prim::S(y)) = (&pa, &pb) {
        // Rust compares str by bytes of UTF-8 = by code point
        return Ok(match op {
            "<" => x < y,
            "<=" => x <= y,
            ">" => x > y,
            _ => x >= y,
        });
    }
    let n = |p: &Prim| -> Result<f64, &'static str> {
        match p {
            Prim::N(f) => Ok(*f),
            Prim::S(s) => match string_to_number(s) {
                SN::Num(f) => Ok(f),
                SN::Unj(r) => Err(r),
            },
        }
    };
    let (x, y) = (n(&pa)?, n(&pb)?);
    Ok(match op {
        "<" => x < y,
        "<=" => x <= y,
        ">" => x > y,
        _ => x >= y,
    })
}

const TWO63: f64 = 9223372036854775808.0;
const TWO64: f64 = 18446744073709551616.0;

/// f64 -> JSON number as C10 words it: error when not finite, JSON integer when integral
/// and within 64 bits, otherwise the double itself.
pub fn mk_number(x: f64) -> MOut {
    if !x.is_finite() {
        return MOut::Err;
    }
    if x.fract() == 0.0 {
        if x >= -TWO63 && x < TWO63 {
            return MOut::Val(Value::Number(Number::from(x as i64)));
        }
        if x >= TWO63 && x < TWO64 {
            return MOut::Val(Value::Number(Number::from(x as u64)));
        }
    }
    match Number::from_f64(x) {
        Some(n) => MOut::Val(Value::Number(n)),
        None => MOut::Err,
    }
}

#[derive(PartialEq)]
enum Exact {
    I(i128),
    F(f64),
}
fn exact(n: &Number) -> Exact {
    if let Some(i) = n.as_i64() {
        return Exact::I(i as i128);
    }
    if let Some(u) = n.as_u64() {
        return Exact::I(u as i128);
    }
    let f = num_f64(n);
    if f.fract() == 0.0 && f.abs() < 1e37 {
        Exact::I(f as i128)
    } else {
        Exact::F(f)
    }
}
pub fn num_exact_eq(a: &Number, b: &Number) -> bool {
    exact(a) == exact(b)
}

/// Deep structural equality with numbers by numeric value (C15 `in`). `Err` when exact
/// and double comparison disagree (integers beyond 2^53): the statement says
/// "numerically equal" without saying in which number system.
pub fn deep_eq(a: &Value, b: &Value) -> Result<bool, &'static str> {
    use Value::*;
    Ok(match (a, b) {
        (Null, Null) => true,
        (Bool(x), Bool(y)) => x == y,
        (String(x), String(y)) => x == y,
        (Number(x), Number(y)) => {
            let e = num_exact_eq(x, y);
            let f = num_f64(x) == num_f64(y);
            // two JSON integers are "numerically equal" only if they are the same integer;
            // an integer against a double beyond 2^53 is left unjudged
            let both_int = !x.is_f64() && !y.is_f64();
            if e != f && !both_int {
                return Err("an integer and a double beyond 2^53 that are equal as doubles but not exactly");
            }
            e
        }
        (Array(x), Array(y)) => {
            if x.len() != y.len() {
                return Ok(false);
            }
            let mut unj = None;
            for (p, q) in x.iter().zip(y.iter()) {
                match deep_eq(p, q) {
                    Ok(true) => {}
                    Ok(false) => return Ok(false),
                    Err(r) => unj = Some(r),
                }
            }
            if let Some(r) = unj {
                return Err(r);
            }
            true
        }
        (Object(x), Object(y)) => {
            if x.len() != y.len() || !x.keys().all(|k| y.contains_key(k)) {
                return Ok(false);
            }
            let mut unj = None;
            for (k, p) in x.iter() {
                match deep_eq(p, &y[k]) {
                    Ok(true) => {}
                    Ok(false) => return Ok(false),
                    Err(r) => unj = Some(r),
                }
            }
            if let Some(r) = unj {
                return Err(r);
            }
            true
        }
        _ => false,
    })
}

// ---------------------------------------------------------------------------------------
// var path resolution (C11, C12)

pub enum Look {
    Present(Value),
    Absent,
    Unj(&'static str),
}

/// Split at unescaped dots; a backslash makes the next character literal.
pub fn split_path(s: &str) -> Result<Vec<String>, &'static str> {
    let mut out = Vec::new();
    let mut cur = String::new();
    let mut esc = false;
    let mut last_was_dot = false;
    for c in s.chars() {
        last_was_dot = false;
        if esc {
            cur.push(c);
            esc = false;
        } else if c == '\\' {
            esc = true;
        } else if c == '.' {
            out.push(std::mem::take(&mut cur));
            last_was_dot = true;
        } else {
            cur.push(c);
        }
    }
    if esc {
        return Err("path ends in a lone backslash");
    }
    if last_was_dot {
        return Err("path ends in an unescaped dot");
    }
    out.push(cur);
    Ok(out)
}

enum Idx {
    I(i64),
    NotIndex,
    Unj,
}
fn canon_index(seg: &str) -> Idx {
    let b = seg.as_bytes();
    let digits = if !b.is_empty() && b[0] == b'-' { &b[1..] } else { b };
    let canonical = !digits.is_empty()
        && digits.iter().all(|c| c.is_ascii_digit())
        && (digits.len() == 1 || digits[0] != b'0');
    if canonical {
        if seg == "-0" {
            return Idx::Unj;
        }
        return match seg.parse::<i64>() {
            Ok(i) => Idx::I(i),
            Err(_) => Idx::NotIndex, // out of the 64-bit range: can never be a position
        };
    }
    // spellings that some integer parsers accept
    let t = seg.trim();
    let t2 = t.strip_prefix('+').or_else(|| t.strip_prefix('-')).unwrap_or(t);
    if !t2.is_empty() && t2.chars().all(|c| c.is_ascii_digit() || c == '_') {
        return Idx::Unj;
    }
    Idx::NotIndex
}

fn index_into<T: Clone>(xs: &[T], i: i64) -> Option<T> {
    let n = xs.len() as i128;
    let j = if i >= 0 { i as i128 } else { n + i as i128 };
    if j >= 0 && j < n {
        Some(xs[j as usize].clone())
    } else {
        None
    }
}

fn step_index(cur: &Value, i: i64) -> Option<Value> {
    match cur {
        Value::Array(a) => index_into(a, i),
        Value::String(s) => {
            let cs: Vec<char> = s.chars().collect();
            index_into(&cs, i).map(|c| Value::String(c.to_string()))
        }
        _ => None,
    }
}

pub fn lookup(data: &Value, key: &Value) -> Look {
    match key {
        Value::Null => Look::Present(data.clone()),
        Value::String(s) => {
            if s.is_empty() {
                return Look::Present(data.clone());
            }
            let segs = match split_path(s) {
                Ok(x) => x,
                Err(r) => return Look::Unj(r),
            };
            let mut cur = data.clone();
            for seg in segs.iter() {
                let next = match &cur {
                    Value::Object(m) => m.get(seg).cloned(),
                    Value::Array(_) | Value::String(_) => match canon_index(seg) {
                        Idx::I(i) => step_index(&cur, i),
                        Idx::NotIndex => None,
                        Idx::Unj => return Look::Unj("non-canonical index spelling"),
                    },
                    _ => None,
                };
                match next {
                    Some(v) => cur = v,
                    None => return Look::Absent,
                }
            }
            Look::Present(cur)
        }
        Value::Number(n) => match n.as_i64() {
            Some(i) => match data {
                Value::Object(m) => match m.get(&i.to_string()) {
                    Some(v) => Look::Present(v.clone()),
                    None => Look::Absent,
                },
                Value::Array(_) | Value::String(_) => match step_index(data, i) {
                    Some(v) => Look::Present(v),
                    None => Look::Absent,
                },
                _ => Look::Absent,
            },
            None => Look::Unj("numeric key that is not a 64-bit signed integer"),
        },
        _ => Look::Unj("boolean / array / object key"),
    }
}

// ---------------------------------------------------------------------------------------
// the evaluator

macro_rules! tryv {
    ($e:expr) => {
        match $e {
            MOut::Val(v) => v,
            other => return other,
        }
    };
}

fn eval_eager_args(args: &[&Value], data: &Value, t: &mut Trace) -> Result<Vec<Value>, MOut> {
    let mut vals = Vec::with_capacity(args.len());
    let mut failed: Option<MOut> = None;
    let mut loggers = 0;
    for a in args {
        let before = t.evs.len();
        if failed.is_some() {
            t.enter_opt();
        }
        let r = eval(a, data, t);
        if failed.is_some() {
            t.leave_opt();
        }
        if t.evs.len() > before {
            loggers += 1;
        }
        match r {
            MOut::Val(v) => vals.push(v),
            MOut::Unj(x) => return Err(MOut::Unj(x)),
            MOut::Err => {
                if failed.is_none() {
                    failed = Some(MOut::Err)
                }
            }
        }
    }
    if loggers >= 2 {
        t.order_known = false;
    }
    match failed {
        Some(f) => Err(f),
        None => Ok(vals),
    }
}

pub fn eval(rule: &Value, data: &Value, t: &mut Trace) -> MOut {
    let (op, a) = match as_op(rule) {
        None => return MOut::Val(rule.clone()),
        Some(x) => x,
    };
    let args = operands(a);
    if arity_ok(op, args.len()) != Some(true) {
        return MOut::Err;
    }
    t.steps += 1;
    match op {
        "if" | "?:" => {
            let n = args.len();
            if n == 0 {
                return MOut::Val(Value::Null);
            }
            if n == 1 {
                return eval(args[0], data, t);
            }
            let mut i = 0;
            while i < n {
                if i == n - 1 {
                    return eval(args[i], data, t);
                }
                let c = tryv!(eval(args[i], data, t));
                if truthy(&c) {
                    return eval(args[i + 1], data, t);
                }
                i += 2;
            }
            MOut::Val(Value::Null)
        }
        "and" | "or" => {
            let want = op == "or";
            let mut last = Value::Null;
            for x in args.iter() {
                last = tryv!(eval(x, data, t));
                if truthy(&last) == want {
                    return MOut::Val(last);
                }
            }
            MOut::Val(last)
        }
        "map" | "filter" => {
            let coll = tryv!(eval(args[0], data, t));
            let items = match coll {
                Value::Array(xs) => xs,
                Value::Null => vec![],
                _ => return MOut::Err,
            };
            if items.is_empty() && statically_invalid(args[1]) {
                return MOut::Unj("malformed expression that is never evaluated (empty collection)");
            }
            let mut out = Vec::new();
            for el in items.into_iter() {
                let v = tryv!(eval(args[1], &el, t));
                if op == "map" {
                    out.push(v);
                } else if truthy(&v) {
                    out.push(el);
                }
            }
            MOut::Val(Value::Array(out))
        }
        "reduce" => {
            let b0 = t.evs.len();
            let coll = eval(args[0], data, t);
            let b1 = t.evs.len();
            let coll_failed = !matches!(coll, MOut::Val(Value::Array(_)) | MOut::Val(Value::Null));
            if coll_failed {
                t.enter_opt();
            }
            let init = eval(args[2], data, t);
            if coll_failed {
                t.leave_opt();
            }
            if b1 > b0 && t.evs.len() > b1 {
                t.order_known = false;
            }
            if let MOut::Unj(r) = coll {
                return MOut::Unj(r);
            }
            if let MOut::Unj(r) = init {
                return MOut::Unj(r);
            }
            let coll = tryv!(coll);
            let items = match coll {
                Value::Array(xs) => xs,
                Value::Null => vec![],
                _ => return MOut::Err,
            };
            let mut acc = tryv!(init);
            if items.is_empty() && statically_invalid(args[1]) {
                return MOut::Unj("malformed expression that is never evaluated (empty collection)");
            }
            for el in items.into_iter() {
                let mut m = Map::new();
                m.insert("current".into(), el);
                m.insert("accumulator".into(), acc);
                acc = tryv!(eval(args[1], &Value::Object(m), t));
                // A fold can nest its accumulator one level per step. Values deeper than JSON
                // text can be (127 containers) are outside what the statements speak about
                // (C01: "documents the text interfaces can deliver"); the implementation returns
                // an error there, which C01 demands instead of a stack overflow.
                if nested_deeper_than(&acc, 127) {
                    return MOut::Unj("reduce accumulator nested deeper than JSON text can be");
                }
            }
            MOut::Val(acc)
        }
        "all" | "some" | "none" => {
            // literal array: elements are expressions; object: evaluated, result is data
            enum Coll<'a> {
                Exprs(&'a Vec<Value>),
                Vals(Vec<Value>),
            }
            let chars = |s: &str| s.chars().map(|c| Value::String(c.to_string())).collect::<Vec<_>>();
            let coll = match args[0] {
                Value::Array(xs) => Coll::Exprs(xs),
                Value::String(s) => Coll::Vals(chars(s)),
                Value::Null => Coll::Vals(vec![]),
                Value::Object(_) => match tryv!(eval(args[0], data, t)) {
                    Value::Array(xs) => Coll::Vals(xs),
                    Value::String(s) => Coll::Vals(chars(&s)),
                    Value::Null => Coll::Vals(vec![]),
                    _ => return MOut::Err,
                },
                _ => return MOut::Err,
            };
            let n = match &coll {
                Coll::Exprs(x) => x.len(),
                Coll::Vals(x) => x.len(),
            };
            let is_all = op == "all";
            if n == 0 {
                // C14: "empty and null collections make all and some false" - whatever the
                // predicate is; it is never evaluated, so nothing in it can fail (as for the
                // unselected operands of C05)
                return MOut::Val(Value::Bool(op == "none"));
            }
            // all: decided by first falsy; some/none: decided by first truthy
            let mut decided = false;
            let mut tail_problem = false;
            for i in 0..n {
                match &coll {
                    Coll::Exprs(xs) => {
                        if decided {
                            t.enter_opt();
                            let r = eval(&xs[i], data, t);
                            t.leave_opt();
                            if !matches!(r, MOut::Val(_)) {
                                tail_problem = true;
                            }
                            continue;
                        }
                        let el = tryv!(eval(&xs[i], data, t));
                        let p = tryv!(eval(args[1], &el, t));
                        if truthy(&p) != is_all {
                            decided = true;
                        }
                    }
                    Coll::Vals(xs) => {
                        if decided {
                            break;
                        }
                        let p = tryv!(eval(args[1], &xs[i], t));
                        if truthy(&p) != is_all {
                            decided = true;
                        }
                    }
                }
            }
            if tail_problem {
                return MOut::Unj("element expression after the deciding element does not evaluate");
            }
            let res = match op {
                "all" => !decided,
                "some" => decided,
                _ => !decided,
            };
            MOut::Val(Value::Bool(res))
        }
        "var" => {
            if args.is_empty() {
                return MOut::Val(data.clone());
            }
            let b0 = t.evs.len();
            let key = eval(args[0], data, t);
            let b1 = t.evs.len();
            let look = match &key {
                MOut::Val(k) => Some(lookup(data, k)),
                _ => None,
            };
            if args.len() == 1 {
                return match look {
                    None => key,
                    Some(Look::Present(v)) => MOut::Val(v),
                    Some(Look::Absent) => MOut::Val(Value::Null),
                    Some(Look::Unj(r)) => MOut::Unj(r),
                };
            }
            // default: required only when the key is absent
            let needed = matches!(look, Some(Look::Absent));
            if !needed {
                t.enter_opt();
            }
            let def = eval(args[1], data, t);
            if !needed {
                t.leave_opt();
            }
            if b1 > b0 && t.evs.len() > b1 {
                t.order_known = false;
            }
            match look {
                None => match key {
                    MOut::Unj(r) => MOut::Unj(r),
                    _ => match def {
                        MOut::Unj(r) => MOut::Unj(r),
                        _ => MOut::Err,
                    },
                },
                Some(Look::Unj(r)) => MOut::Unj(r),
                Some(Look::Absent) => def,
                Some(Look::Present(v)) => match def {
                    MOut::Val(_) => MOut::Val(v),
                    MOut::Unj(r) => MOut::Unj(r),
                    MOut::Err => MOut::Unj("default errs while the key is present (eager vs lazy default)"),
                },
            }
        }
        "missing" => {
            let vals = match eval_eager_args(&args, data, t) {
                Ok(v) => v,
                Err(e) => return e,
            };
            let keys: Vec<Value> = match vals.first() {
                Some(Value::Array(xs)) => xs.clone(),
                _ => vals,
            };
            let mut out = Vec::new();
            for k in keys.iter() {
                if k.is_null() {
                    continue;
                }
                match lookup(data, k) {
                    Look::Present(_) => {}
                    Look::Absent => out.push(k.clone()),
                    Look::Unj(r) => return MOut::Unj(r),
                }
            }
            MOut::Val(Value::Array(out))
        }
        "missing_some" => {
            let vals = match eval_eager_args(&args, data, t) {
                Ok(v) => v,
                Err(e) => return e,
            };
            let need = match &vals[0] {
                Value::Number(n) => match n.as_u64() {
                    Some(u) => u,
                    None => return MOut::Unj("threshold that is not a non-negative integer"),
                },
                _ => return MOut::Unj("threshold that is not a number"),
            };
            let keys = match &vals[1] {
                Value::Array(xs) => xs,
                _ => return MOut::Unj("key list that is not an array"),
            };
            let mut present_mult: u64 = 0;
            let mut present_distinct: Vec<&Value> = Vec::new();
            let mut nulls: u64 = 0;
            let mut missing: Vec<Value> = Vec::new();
            for k in keys.iter() {
                if k.is_null() {
                    nulls += 1;
                    continue;
                }
                match lookup(data, k) {
                    Look::Present(_) => {
                        present_mult += 1;
                        if !present_distinct.contains(&k) {
                            present_distinct.push(k);
                        }
                    }
                    Look::Absent => {
                        if !missing.contains(k) {
                            missing.push(k.clone());
                        }
                    }
                    Look::Unj(r) => return MOut::Unj(r),
                }
            }
            // "at least the required number of the listed keys are present": every LISTED key
            // (every entry of the list, repeated or not) that is present counts - the literal
            // reading, and the one under which "an absent key is never counted as present,
            // however many times it is listed" says something. What the statement leaves open is
            // whether a null key (ignored by `missing`) counts as a present entry.
            let _ = &present_distinct;
            let readings = [present_mult, present_mult + nulls];
            let met: Vec<bool> = readings.iter().map(|p| *p >= need).collect();
            if met.iter().any(|m| *m != met[0]) && !missing.is_empty() {
                return MOut::Unj("missing_some: readings of 'number of listed keys present' differ");
            }
            if met[0] {
                MOut::Val(Value::Array(vec![]))
            } else {
                MOut::Val(Value::Array(missing))
            }
        }
        _ => {
            let vals = match eval_eager_args(&args, data, t) {
                Ok(v) => v,
                Err(e) => return e,
            };
            apply_eager(op, &vals, t)
        }
    }
}

fn fold_numbers(vals: &[Value], conv: fn(&Value) -> SN) -> Result<Vec<f64>, MOut> {
    let mut out = Vec::new();
    let mut unj = None;
    let mut nan = false;
    for v in vals {
        match conv(v) {
            SN::Num(f) if f.is_nan() => nan = true,
            SN::Num(f) => out.push(f),
            SN::Unj(r) => unj = Some(r),
        }
    }
    if nan {
        return Err(MOut::Err); // a non-numeric operand is an error whatever the others are
    }
    if let Some(r) = unj {
        return Err(MOut::Unj(r));
    }
    Ok(out)
}

pub fn apply_eager(op: &str, v: &[Value], t: &mut Trace) -> MOut {
    let b = |x: bool| MOut::Val(Value::Bool(x));
    match op {
        "==" | "!=" => match es_eq(&v[0], &v[1]) {
            Ok(r) => b(r == (op == "==")),
            Err(r) => MOut::Unj(r),
        },
        "===" => b(es_strict(&v[0], &v[1])),
        "!==" => b(!es_strict(&v[0], &v[1])),
        "!" => b(!truthy(&v[0])),
        "!!" => b(truthy(&v[0])),
        "<" | "<=" | ">" | ">=" => {
            let r1 = es_rel(op, &v[0], &v[1]);
            if v.len() == 2 {
                return match r1 {
                    Ok(r) => b(r),
                    Err(r) => MOut::Unj(r),
                };
            }
            let r2 = es_rel(op, &v[1], &v[2]);
            match (r1, r2) {
                (Ok(x), Ok(y)) => b(x && y),
                (Ok(false), _) | (_, Ok(false)) => b(false),
                (Err(r), _) | (_, Err(r)) => MOut::Unj(r),
            }
        }
        "+" | "*" => {
            let ns = match fold_numbers(v, parse_float_value) {
                Ok(x) => x,
                Err(e) => return e,
            };
            let mut acc = if op == "+" { 0.0 } else { 1.0 };
            for x in ns {
                if op == "+" {
                    acc += x
                } else {
                    acc *= x
                }
            }
            mk_number(acc)
        }
        "-" | "/" | "%" | "max" | "min" => {
            let ns = match fold_numbers(v, to_number) {
                Ok(x) => x,
                Err(e) => return e,
            };
            let r = match op {
                "-" if ns.len() == 1 => -ns[0],
                "-" => ns[0] - ns[1],
                "/" => ns[0] / ns[1],
                "%" => ns[0] % ns[1], // Rust's % on f64 is the C fmod: truncated remainder
                "max" => ns.iter().cloned().fold(f64::NEG_INFINITY, f64::max),
                _ => ns.iter().cloned().fold(f64::INFINITY, f64::min),
            };
            mk_number(r)
        }
        "merge" => {
            let mut out = Vec::new();
            for x in v {
                match x {
                    Value::Array(xs) => out.extend(xs.iter().cloned()),
                    o => out.push(o.clone()),
                }
            }
            MOut::Val(Value::Array(out))
        }
        "in" => match &v[1] {
            Value::String(h) => match &v[0] {
                Value::String(n) => b(h.contains(n.as_str())),
                _ => MOut::Err,
            },
            Value::Array(xs) => {
                let mut unj = None;
                for x in xs {
                    match deep_eq(&v[0], x) {
                        Ok(true) => return b(true),
                        Ok(false) => {}
                        Err(r) => unj = Some(r),
                    }
                }
                match unj {
                    Some(r) => MOut::Unj(r),
                    None => b(false),
                }
            }
            Value::Null => b(false),
            _ => MOut::Err,
        },
        "cat" => MOut::Val(Value::String(v.iter().map(to_str).collect::<Vec<_>>().join(""))),
        "substr" => {
            let s = match &v[0] {
                Value::String(s) => s,
                _ => return MOut::Unj("substr of a non-string"),
            };
            let int = |x: &Value| -> Option<i128> {
                match x {
                    Value::Number(n) => n.as_i64().map(|i| i as i128),
                    _ => None,
                }
            };
            let start = match int(&v[1]) {
                Some(i) => i,
                None => return MOut::Unj("substr start that is not a 64-bit integer"),
            };
            let cs: Vec<char> = s.chars().collect();
            let n = cs.len() as i128;
            let from = if start >= 0 { start.min(n) } else { (n + start).max(0) };
            let to = if v.len() == 3 {
                let len = match int(&v[2]) {
                    Some(i) => i,
                    None => return MOut::Unj("substr length that is not a 64-bit integer"),
                };
                if len >= 0 {
                    (from + len).min(n)
                } else {
                    (n + len).max(0)
                }
            } else {
                n
            };
            let out: String = if to > from { cs[from as usize..to as usize].iter().collect() } else { String::new() };
            MOut::Val(Value::String(out))
        }
        "log" => {
            t.log(v[0].to_string());
            MOut::Val(v[0].clone())
        }
        _ => MOut::Unj("unknown operator in model"),
    }
}

/// Iterative nesting-depth test (never recurses into the value).
pub fn nested_deeper_than(v: &Value, limit: usize) -> bool {
    let mut pending: Vec<(&Value, usize)> = vec![(v, 0)];
    while let Some((cur, d)) = pending.pop() {
        match cur {
            Value::Array(a) => {
                if d + 1 > limit {
                    return true;
                }
                pending.extend(a.iter().map(|c| (c, d + 1)));
            }
            Value::Object(m) => {
                if d + 1 > limit {
                    return true;
                }
                pending.extend(m.values().map(|c| (c, d + 1)));
            }
            _ => {}
        }
    }
    false
}

/// Convenience: evaluate with a fresh trace.
pub fn model(rule: &Value, data: &Value) -> (MOut, Trace) {
    let mut t = Trace::new();
    let o = eval(rule, data, &mut t);
    (o, t)
}

/// Result comparison: JSON text equality, except that an integral number of magnitude
/// >= 2^63 may be spelled either as an integer or as a double (C10 leaves that open).
pub fn value_equiv(got: &Value, want: &Value) -> bool {
    use Value::*;
    match (got, want) {
        (Number(a), Number(b)) => {
            if a.to_string() == b.to_string() {
                return true;
            }
            let big = num_f64(b).abs() >= TWO63;
            big && num_exact_eq(a, b)
        }
        (Array(a), Array(b)) => a.len() == b.len() && a.iter().zip(b.iter()).all(|(x, y)| value_equiv(x, y)),
        (Object(a), Object(b)) => {
            a.len() == b.len() && a.iter().all(|(k, x)| b.get(k).map(|y| value_equiv(x, y)).unwrap_or(false))
        }
        (Null, Null) => true,
        (Bool(a), Bool(b)) => a == b,
        (String(a), String(b)) => a == b,
        _ => false,
    }
}
