//! `jlmon texts <ID> --seed N --count K`: (rule text, data text) workloads for the
//! process-boundary lanes (CLI, Python). One JSON object per line: {"rule","data","cls"}.

use crate::corpus::*;
use crate::rng::Rng;
use serde_json::{json, Value};

fn emit(rule: &str, data: &str, cls: &str) {
    println!("{}", json!({"rule": rule, "data": data, "cls": cls}));
}

fn deep_text(op: &str, depth: usize, bracketed: bool, leaf: &str) -> String {
    let mut s = String::new();
    for _ in 0..depth {
        s.push_str(&format!("{{\"{}\":", op));
        if bracketed {
            s.push('[');
        }
    }
    s.push_str(leaf);
    for _ in 0..depth {
        if bracketed {
            s.push(']');
        }
        s.push('}');
    }
    s
}

pub fn run(id: &str, seed: u64, count: usize) {
    let mut r = Rng::from_parts(seed, id, 777);
    // ---- fixed pairs every boundary lane sees
    let fixed: Vec<(&str, &str)> = vec![
        (r#"{"===":[{"var":"a"},"foo"]}"#, r#"{"a":"foo"}"#),
        (r#"{"var":""}"#, r#"{"a":[1,2.0,-0.0,1e300,1e-7,18446744073709551615,-9223372036854775808,0.1]}"#),
        (r#"{"cat":["line1\nline2","\t","\u0000","é","😀","\ud83d\ude00","\"q\"","\\"]}"#, "null"),
        (r#"{"log":"hello"}"#, "null"),
        (r#"{"log":{"var":""}}"#, r#"{"k":"multi\nline"}"#),
        (r#"{"if":[{"log":"c1"},{"log":"then"},{"log":"never"}]}"#, "null"),
        (r#"{"and":[{"log":0},{"log":"never"}]}"#, "null"),
        (r#"{"+":[{"log":1},{"log":2},{"/":[1]}]}"#, "null"),
        (r#"{"+":[{"log":1},{"log":"x"}]}"#, "null"),
        (r#"{"map":[[1,2,3],{"log":{"var":""}}]}"#, "null"),
        (r#"{"*":[1e300,1]}"#, "null"),
        (r#"{"+":[9223372036854775807,1]}"#, "null"),
        (r#"{"/":[1,0]}"#, "null"),
        (r#"{"substr":["éa",-1]}"#, "null"),
        (r#"{"substr":["abc",-9223372036854775808]}"#, "null"),
        (r#"{"var":-9223372036854775808}"#, "[1,2]"),
        (r#"{"var":"a.b"}"#, r#"{"a":{"b":{"var":"secret"}},"secret":1}"#),
        (r#"{"some":[{"var":"items"},true]}"#, r#"{"items":[{"log":"LEAK"}]}"#),
        (r#"{"var":["zz",{"var":"x"}]}"#, r#"{"x":{"log":"LEAK"}}"#),
        ("[1, 2 ,\n 3]", " null "),
        ("  {\"var\" : \"a\"}  ", "\n{\"a\"\t:\t1}\n"),
        ("true", "false"),
        ("\"string\"", "\"data\""),
        ("-1", "-0.5"),
        ("-0.0", "-1"),
        ("{}", "{}"),
        (r#"{"a":1,"a":2}"#, "null"),
        (r#"{"var":"a"}"#, r#"{"a":1,"a":2}"#),
        ("1e400", "null"),
        ("null", "1e400"),
        ("123456789012345678901234567890", "null"),
        ("0.1e-400", "null"),
        (r#"{"missing_some":[1,["a","a"]]}"#, "{}"),
        (r#"{"in":[1.0,[1,2,3]]}"#, "null"),
        (r#"{"<=":[null,0]}"#, "null"),
        (r#"{"==":[" 1 ",1]}"#, "null"),
        (r#"{"Var":"a"}"#, r#"{"a":1}"#),
        (r#"{"var":"a","x":1}"#, r#"{"a":1}"#),
    ];
    for (a, b) in fixed.iter() {
        emit(a, b, "fixed");
    }
    // falsy (but not null) data must stay what it is through every wrapper
    for d in ["0", "0.0", "-0.0", "false", "\"\"", "[]", "{}", "null", "[0]", "\" \""] {
        for r in [r#"{"var":""}"#, r#"{"===":[{"var":""},null]}"#, r#"{"cat":["<",{"var":""},">"]}"#, r#"{"!!":[{"var":""}]}"#, r#"{"merge":[{"var":""},1]}"#, r#"{"+":[{"var":""},1]}"#] {
            emit(r, d, "falsy-data");
        }
    }
    // deep documents around the text-boundary recursion limit (valid side)
    for op in ["!", "if", "+", "var", "cat", "and", "merge", "log", "map", "all"] {
        for (d, br) in [(10, true), (60, true), (63, true), (100, false), (126, false)] {
            emit(&deep_text(op, d, br, "1"), "[[1,2],{\"a\":1}]", "deep");
        }
    }
    let deep_data = format!("{}1{}", "[".repeat(127), "]".repeat(127));
    emit(r#"{"cat":[{"var":""}]}"#, &deep_data, "deep");
    emit(r#"{"var":"0.0.0.0"}"#, &deep_data, "deep");
    if id == "C01" {
        // integer extremes in every index-taking position, as text
        let ex = ["-9223372036854775808", "9223372036854775807", "18446744073709551615", "-1", "0", "1e308", "-0.0", "\"é😀\"", "\"-9223372036854775808\"", "null", "[]", "{}"];
        for op in all_ops() {
            for a in ex.iter() {
                emit(&format!("{{\"{}\":[{}]}}", op, a), "[1,2,3]", "matrix");
                emit(&format!("{{\"{}\":{}}}", op, a), "\"日本語\"", "matrix");
                for b in ex.iter() {
                    if r.chance(1, 3) {
                        emit(&format!("{{\"{}\":[\"日本語😀\",{},{}]}}", op, a, b), "{\"a\":1}", "matrix");
                        emit(&format!("{{\"{}\":[{},{}]}}", op, a, b), "[[1,\"é\"]]", "matrix");
                    }
                }
            }
        }
    }
    // ---- random rules (with log probes and poisoned operands) against random data
    let mut g = RuleGen::new();
    g.probes = 10;
    g.poison = 5;
    if id == "C05" {
        g.ops = vec!["if", "?:", "and", "or", "log", "!", "!!", "var", "cat"];
        g.probes = 25;
    }
    let mut n = 0;
    while n < count {
        let d = rand_data(&mut r, 3, 8, &mut 0);
        let rule = g.rule(&mut r, &d, 4, 3);
        let (rt, dt) = match r.below(4) {
            0 => (serde_json::to_string_pretty(&rule).unwrap(), d.to_string()),
            1 => (rule.to_string(), serde_json::to_string_pretty(&d).unwrap()),
            _ => (rule.to_string(), d.to_string()),
        };
        emit(&rt, &dt, "random");
        n += 1;
        // a literal rule now and then
        if r.chance(1, 10) {
            let v: Value = rand_value(&mut r, 3);
            emit(&v.to_string(), &d.to_string(), "random-literal");
        }
    }
}
