//! jlmon: runtime monitors for json-logic-rs (see /verif/DESIGN.md).
//!
//!   jlmon run <ID> --tier quick|thorough --seed N --shard i/n --lane NAME --out FILE
//!   jlmon replay FILE            re-run one recorded violation through its monitor
//!   jlmon libcall                library-as-a-process: NDJSON {"rule": text, "data": text} on stdin
//!   jlmon selftest TRUTH.json TESTS.json   oracle self-test (recorded JS ground truth, shared cases)
//!   jlmon corpus                 print the corpora as JSON (used once to record the JS ground truth)

mod alloc;
mod corpus;
mod ctx;
mod observe;
mod props_c01;
mod props_c17;
mod props_data;
mod props_lazy;
mod props_far;
mod props_sizes;
mod props_struct;
mod props_values;
mod refsem;
mod rng;
mod selftest;
mod texts;
mod props_idioms;

use serde_json::{json, Value};
use std::io::{BufRead, Write};

fn arg_after(args: &[String], name: &str) -> Option<String> {
    args.iter().position(|a| a == name).and_then(|i| args.get(i + 1)).cloned()
}

/// The operators a value property judges inside mixed histories / at cold start.
fn own_ops(pid: &str) -> Option<(&'static str, &'static [&'static str])> {
    match pid {
        "C04" => Some(("c04.mixed-history", &[])),
        "C05" => Some(("c05.mixed-history", &["if", "?:", "and", "or"])),
        "C06" => Some(("c06.mixed-history", &["!", "!!", "if", "and", "filter", "some"])),
        "C07" => Some(("c07.mixed-history", &["==", "!="])),
        "C08" => Some(("c08.mixed-history", &["===", "!=="])),
        "C09" => Some(("c09.mixed-history", &["<", "<=", ">", ">="])),
        "C10" => Some(("c10.mixed-history", &["+", "-", "*", "/", "%", "min", "max"])),
        "C11" => Some(("c11.mixed-history", &["var"])),
        "C12" => Some(("c12.mixed-history", &["missing", "missing_some"])),
        "C13" => Some(("c13.mixed-history", &["map", "filter", "reduce"])),
        "C14" => Some(("c14.mixed-history", &["some"])),
        "C15" => Some(("c15.mixed-history", &["in", "merge"])),
        "C16" => Some(("c16.mixed-history", &["cat", "substr"])),
        _ => None,
    }
}

pub fn run_property(c: &mut ctx::Ctx) -> bool {
    match c.pid.as_str() {
        "C01" => props_c01::c01(c),
        "C02" => props_struct::c02(c),
        "C03" => props_struct::c03(c),
        "C04" => props_lazy::c04(c),
        "C05" => props_lazy::c05(c),
        "C06" => props_values::c06(c),
        "C07" => props_values::c07(c),
        "C08" => props_values::c08(c),
        "C09" => props_values::c09(c),
        "C10" => props_values::c10(c),
        "C11" => props_data::c11(c),
        "C12" => props_data::c12(c),
        "C13" => props_lazy::c13(c),
        "C14" => props_lazy::c14(c),
        "C15" => props_values::c15(c),
        "C16" => props_values::c16(c),
        "C17" => props_c17::c17(c),
        _ => return false,
    }
    // every value property also judges its own operators inside mixed histories (other operators on
    // the same / look-alike operands before and after): see props_c17::semantic_key_histories
    let own = own_ops(&c.pid);
    if let Some((mon, ops)) = own {
        if !c.small {
            props_c17::semantic_key_histories(c, mon, ops);
            // operands colliding under a weak key (32 bits of a common hash, a byte sum, the ends), back to back
            if matches!(c.pid.as_str(), "C07" | "C09" | "C10" | "C11" | "C12" | "C15" | "C16") {
                props_c17::weak_key_histories(c, mon, ops);
            }
        }
    }
    // error paths that quote an operand, for the property's own operators (all operators for C02 .. C04)
    if !c.small && c.pid != "C01" && c.pid != "C17" {
        let ops: &[&str] = own_ops(&c.pid).map(|x| x.1).unwrap_or(&[]);
        let mon = format!("{}.model", c.pid.to_lowercase());
        let mon = if c.mons.contains_key(&mon) { mon } else { format!("{}.error-paths", c.pid.to_lowercase()) };
        props_c01::error_echo_own(c, &mon, ops);
    }
    // everyday idioms (folds, per-row expressions, switch ladders, annotated objects) x hostile values
    if !c.small {
        let kinds: Option<(&str, &[&str])> = match c.pid.as_str() {
            "C02" => Some(("c02.model", &["annotations"])),
            "C04" => Some(("c04.model", &["fold", "rows"])),
            "C05" => Some(("c05.model", &["switch"])),
            "C06" => Some(("c06.model", &["rows", "switch"])),
            "C07" | "C08" | "C09" => Some(("", &["switch"])),
            "C10" => Some(("c10.model", &["fold"])),
            "C11" | "C12" => Some(("", &["rows"])),
            "C13" => Some(("c13.model", &["fold", "rows"])),
            "C14" => Some(("c14.model", &["rows"])),
            "C15" | "C16" => Some(("", &["fold"])),
            _ => None,
        };
        if let Some((mon, kinds)) = kinds {
            let mon = if mon.is_empty() { format!("{}.idioms", c.pid.to_lowercase()) } else { mon.to_string() };
            props_idioms::idioms(c, &mon, kinds);
        }
    }
    // ... and a sample of its own judged calls again, from 8 threads at once
    if c.pid != "C17" && !c.small {
        let mon = format!("{}.concurrent-replay", c.pid.to_lowercase());
        let ops: &[&str] = own_ops(&c.pid).map(|x| x.1).unwrap_or(&[]);
        props_c17::concurrent_replay(c, &mon, ops);
    }
    true
}

fn main() {
    let args: Vec<String> = std::env::args().collect();
    if args.len() < 2 {
        eprintln!("usage: jlmon run|replay|libcall|selftest|corpus ...");
        std::process::exit(2);
    }
    match args[1].as_str() {
        "run" => {
            let pid = args.get(2).cloned().unwrap_or_default();
            let tier = arg_after(&args, "--tier").unwrap_or_else(|| "quick".into());
            let seed: u64 = arg_after(&args, "--seed").and_then(|s| s.parse().ok()).unwrap_or(0);
            let shard_s = arg_after(&args, "--shard").unwrap_or_else(|| "0/1".into());
            let lane = arg_after(&args, "--lane").unwrap_or_else(|| "unknown".into());
            let out = arg_after(&args, "--out");
            let mut it = shard_s.split('/');
            let shard: u64 = it.next().and_then(|s| s.parse().ok()).unwrap_or(0);
            let nshards: u64 = it.next().and_then(|s| s.parse().ok()).unwrap_or(1);
            let mut c = ctx::Ctx::new(&pid, &tier, seed, shard, nshards, &lane);
            if let Some(sc) = arg_after(&args, "--scale").and_then(|s| s.parse::<f64>().ok()) {
                c.scale = sc;
            }
            c.small = args.iter().any(|a| a == "--small") || cfg!(miri);
            observe::install_panic_hook();
            let captured = if std::env::var("JL_NOCAPTURE").is_ok() { false } else { observe::capture_start() };
            c.extra.insert("log_capture".into(), json!(captured));
            // fd-2 capture: C17 only, and not under the sanitizers (their reports must reach the real stderr)
            if pid == "C17" && captured && matches!(lane.as_str(), "relchk" | "dev" | "release") {
                let on = observe::errcap_start();
                c.extra.insert("stderr_capture".into(), json!(on));
            }
            // bounded termination: 10 s of CPU inside one call (> 30x the slowest legitimate call observed)
            let budget_s: u64 = std::env::var("JL_CPU_BUDGET_S").ok().and_then(|s| s.parse().ok()).unwrap_or(10);
            if let Some(p) = &out {
                observe::wd_start(Some(format!("{}.hang", p)), budget_s * 1_000_000_000);
            }
            let t0 = std::time::Instant::now();
            let known = run_property(&mut c);
            observe::errcap_stop();
            observe::capture_stop();
            if !known {
                eprintln!("unknown property {}", pid);
                std::process::exit(2);
            }
            let mut rep = c.report();
            rep["wall_s"] = json!(t0.elapsed().as_secs_f64());
            rep["complete"] = json!(true);
            let text = serde_json::to_string(&rep).unwrap();
            match out {
                Some(p) => std::fs::write(&p, text).expect("write report"),
                None => println!("{}", text),
            }
        }
        "coldstart" => {
            // jlmon coldstart <PID> --seed S --out FILE : see props_c17::coldstart
            let pid = args.get(2).cloned().unwrap_or_default();
            let seed: u64 = arg_after(&args, "--seed").and_then(|s| s.parse().ok()).unwrap_or(0);
            let lane = arg_after(&args, "--lane").unwrap_or_else(|| "unknown".into());
            let out = arg_after(&args, "--out");
            let mut c = ctx::Ctx::new(&pid, "quick", seed, seed & 0xffff, 1, &lane);
            observe::install_panic_hook();
            let (mon, ops): (String, &[&str]) = match own_ops(&pid) {
                Some((_, ops)) => (format!("{}.cold-start", pid.to_lowercase()), ops),
                None => (format!("{}.cold-start", pid.to_lowercase()), &[]),
            };
            props_c17::coldstart(&mut c, &mon, ops, 8);
            let mut rep = c.report();
            rep["complete"] = json!(true);
            let text = serde_json::to_string(&rep).unwrap();
            match out {
                Some(p) => std::fs::write(&p, text).expect("write report"),
                None => println!("{}", text),
            }
        }
        "replay" => {
            let path = args.get(2).expect("replay file");
            let text = std::fs::read_to_string(path).expect("read replay file");
            let rec: Value = serde_json::from_str(&text).expect("replay json");
            let code = replay(&rec);
            std::process::exit(code);
        }
        "libcall" => libcall(),
        "miri-ping" => println!("miri-pong"),
        "selftest" => {
            let truth = args.get(2).expect("truth file");
            let tests = args.get(3).expect("tests.json");
            std::process::exit(selftest::run(truth, tests));
        }
        "texts" => {
            let pid = args.get(2).cloned().unwrap_or_default();
            let seed: u64 = arg_after(&args, "--seed").and_then(|s| s.parse().ok()).unwrap_or(0);
            let count: usize = arg_after(&args, "--count").and_then(|s| s.parse().ok()).unwrap_or(100);
            texts::run(&pid, seed, count);
        }
        "corpus" => {
            let v = corpus::v_all();
            let s = corpus::s_numeric_strings();
            println!("{}", json!({"values": v.iter().map(|x| x.to_string()).collect::<Vec<_>>(), "numeric_strings": s}));
        }
        _ => {
            eprintln!("unknown sub-command");
            std::process::exit(2);
        }
    }
}

/// Re-run a recorded violation: the property's whole shard workload is deterministic, so the
/// replay re-executes the recorded (property, tier, seed, shard) and looks for the signature;
/// for plain (rule, data) witnesses the generic judge is applied directly first.
fn replay(rec: &Value) -> i32 {
    let pid = rec["property"].as_str().unwrap_or("");
    let monitor = rec["monitor"].as_str().unwrap_or("replay");
    let sig = rec["sig"].as_str().unwrap_or("");
    observe::install_panic_hook();
    observe::capture_start();
    if pid == "C17" {
        observe::errcap_start();
    }
    let mut c = ctx::Ctx::new(pid, rec["tier"].as_str().unwrap_or("quick"), rec["seed"].as_u64().unwrap_or(0), rec["shard"].as_u64().unwrap_or(0), rec["nshards"].as_u64().unwrap_or(1), "replay");
    let direct = rec.get("rule").is_some() && !rec["rule"].is_null() && rec["direct"].as_bool().unwrap_or(true);
    if direct {
        c.check(monitor, &rec["rule"], &rec["data"]);
    }
    let direct_hit = direct && !c.violations.is_empty();
    if !direct_hit {
        c.violations.clear();
        run_property(&mut c);
    }
    observe::errcap_stop();
    observe::capture_stop();
    let hit: Vec<&ctx::Violation> = c.violations.iter().filter(|v| direct_hit || sig.is_empty() || v.sig == sig).collect();
    if hit.is_empty() {
        println!("REPLAY property={} sig={} : not reproduced (property holds on the recorded case)", pid, sig);
        0
    } else {
        for v in hit.iter().take(3) {
            println!("REPLAY property={} monitor={} sig={}\n  rule: {}\n  data: {}\n  expected: {}\n  got: {}\n  note: {}", pid, v.monitor, v.sig, v.rule, v.data, v.expected, v.got, v.note);
        }
        println!("VIOLATION property={} replay={}", pid, rec["replay_path"].as_str().unwrap_or("<replay file>"));
        1
    }
}

/// Library reached without bin.rs / __init__.py: one JSON record per input line.
/// Output per call: the raw lines printed by `log`, then `@@RET {"ok": <text>} | {"err": msg} | {"parse_error": which}`.
fn libcall() {
    let budget_s: u64 = std::env::var("JL_CPU_BUDGET_S").ok().and_then(|s| s.parse().ok()).unwrap_or(10);
    observe::wd_start(None, budget_s * 1_000_000_000);
    let shim = observe::shim();
    let stdin = std::io::stdin();
    for line in stdin.lock().lines() {
        let line = match line {
            Ok(l) => l,
            Err(_) => break,
        };
        if line.trim().is_empty() {
            continue;
        }
        let rec: Value = match serde_json::from_str(&line) {
            Ok(v) => v,
            Err(_) => {
                println!("@@RET {}", json!({"harness_error": "bad request line"}));
                continue;
            }
        };
        let rt = rec["rule"].as_str().unwrap_or("");
        let dt = rec["data"].as_str().unwrap_or("");
        let r: Result<Value, _> = serde_json::from_str(rt);
        let d: Result<Value, _> = serde_json::from_str(dt);
        let ret = match (r, d) {
            (Err(e), _) => json!({"parse_error": "rule", "msg": e.to_string()}),
            (_, Err(e)) => json!({"parse_error": "data", "msg": e.to_string()}),
            (Ok(r), Ok(d)) => match {
                observe::wd_arm(&r, &d);
                let o = match shim {
                    Some(sh) => {
                        let (o, n, names) = observe::call_armed(sh, &r, &d);
                        let _ = std::io::stdout().flush();
                        println!("@@SHIM {}", json!({"consulted": n, "names": names}));
                        o
                    }
                    None => observe::call(&r, &d),
                };
                observe::wd_disarm();
                o
            } {
                observe::Outcome::Ok(v) => json!({"ok": v.to_string()}),
                observe::Outcome::Err(e) => json!({ "err": e }),
                observe::Outcome::Panic(p) => json!({ "panic": p }),
            },
        };
        println!("@@RET {}", ret);
        let _ = std::io::stdout().flush();
    }
}
