//! C01: evaluation is total. In-process monitors M1 (apply), M2 (public helpers), M3 (bounded
//! CPU time per call); the process-level monitors (CLI, Python, sanitizers) are lanes of the
//! orchestrator that re-use this workload.

use crate::alloc;
use crate::corpus::*;
use crate::ctx::Ctx;
use crate::observe::{self, Outcome};
use jsonlogic_rs::js_op;
use serde_json::{json, Value};

/// CPU budget per call on a bounded document: 10 s of thread CPU time (observed worst case
/// is tens of milliseconds, so the headroom is > 100x and load cannot turn it into a verdict).
const CPU_BUDGET_NS: u64 = 10_000_000_000;

fn total(ctx: &mut Ctx, monitor: &str, class: &str, rule: &Value, data: &Value) {
    let (a0, _) = alloc::snapshot();
    let t0 = observe::thread_cpu_ns();
    let obs = ctx.observe(rule, data);
    let dt = observe::thread_cpu_ns().saturating_sub(t0);
    let (a1, _) = alloc::snapshot();
    ctx.mon(monitor).observed += 1;
    ctx.mon(monitor).judged += 1;
    let size = (rule.to_string().len() + data.to_string().len()) as u64;
    match &obs.out {
        Outcome::Panic(p) => {
            let site = p.rsplit(" @ ").next().unwrap_or("").to_string();
            let msg: String = p.split(" @ ").next().unwrap_or("").chars().take(60).collect();
            ctx.violation(monitor, &format!("panic:{}:{}:{}", crate::ctx::top_op(rule), msg, site), rule, data, json!("a value or an error"), obs.out.brief(), "evaluation panicked");
            ctx.cell(&format!("{}:panic", class));
        }
        Outcome::Ok(_) => {
            ctx.cell(&format!("{}:value", class));
            ctx.remember_for_replay(rule, data, &obs.out);
        }
        Outcome::Err(_) => {
            ctx.cell(&format!("{}:error", class));
            ctx.remember_for_replay(rule, data, &obs.out);
        }
    }
    if dt > CPU_BUDGET_NS && size <= 65536 {
        ctx.violation("c01.cpu-bound", &format!("cpu:{}", crate::ctx::top_op(rule)), rule, data, json!({"cpu_budget_ns": CPU_BUDGET_NS}), json!({"cpu_ns": dt}), "a call on a document of at most 64 KiB exceeded its CPU-time budget");
    }
    ctx.mon("c01.cpu-bound").observed += 1;
    ctx.mon("c01.cpu-bound").judged += 1;
    let e = ctx.extra.entry("max_cpu_ns_per_call".to_string()).or_insert(json!({"max": 0}));
    if dt > e["max"].as_u64().unwrap_or(0) {
        *e = json!({"max": dt, "doc_bytes": size});
    }
    if alloc::enabled() && size > 0 {
        let per_byte = ((a1 - a0) * 1000 / size.max(1)) as u64;
        let e = ctx.extra.entry("max_allocations_per_1000_input_bytes".to_string()).or_insert(json!({"max": 0}));
        if per_byte > e["max"].as_u64().unwrap_or(0) {
            *e = json!({"max": per_byte});
        }
    }
    ctx.mark_nontrivial(rule, data);
}

/// Values aimed at panics: integer extremes, huge / tiny doubles, multi-byte strings, odd shapes.
fn extremes() -> Vec<Value> {
    let mut v: Vec<Value> = [
        "-9223372036854775808", "-9223372036854775807", "9223372036854775807", "9223372036854775808", "18446744073709551615",
        "9007199254740993", "-9007199254740993", "0", "-0.0", "1", "-1", "2", "1.5", "1e308", "-1e308", "1.7976931348623157e308",
        "5e-324", "1e-320", "1e300", "4294967296", "-4294967297", "0.1",
    ].iter().map(|t| parse(t)).collect();
    for s in ["", "a", "é", "日本語", "😀", "a😀b", "e\u{301}", "\u{0}", "-9223372036854775808", "9223372036854775808", "1e308", "1e309", "-1e309", "Infinity", "-Infinity", "NaN", "inf", "nan", " 1 ", "0x10", "12px", ".", "a.b", "a\\", "\\", "0", "-1", "\u{10FFFF}", "\u{FFFF}"] {
        v.push(json!(s));
    }
    for t in ["null", "true", "false", "[]", "[[]]", "[1,2]", "[\"é\"]", "[-9223372036854775808]", "[1e308,1e308]", "{}", "{\"a\":1}", "{\"var\":\"a\"}", "[null]", "[[[[[[[[1]]]]]]]]"] {
        v.push(parse(t));
    }
    v
}

fn deep_text(op: &str, depth: usize, bracketed: bool, leaf: &str) -> String {
    let mut s = String::new();
    for _ in 0..depth {
        s.push_str(&format!("{{\"{}\":", op));
        if bracketed {
            s.push('[');
        }
    }
    s.push_str(leaf);
    for _ in 0..depth {
        if bracketed {
            s.push(']');
        }
        s.push('}');
    }
    s
}

/// Deepest chain of `op` that the text boundary (serde_json, recursion limit 128) delivers.
fn deepest(op: &str, bracketed: bool, leaf: &str) -> Option<(Value, usize)> {
    let mut d = if bracketed { 64 } else { 128 };
    while d > 0 {
        if let Ok(v) = serde_json::from_str::<Value>(&deep_text(op, d, bracketed, leaf)) {
            return Some((v, d));
        }
        d -= 1;
    }
    None
}

pub fn c01(ctx: &mut Ctx) {
    let ops = all_ops();
    let ex = extremes();
    let datas: Vec<Value> = vec![Value::Null, json!([1, 2]), json!({"a": {"b": [1, "é😀"]}, "-9223372036854775808": 1, "s": "日本語"}), json!("é😀a"), json!(i64::MIN), json!({"current": 1, "accumulator": [1]})];
    let mut idx = 0u64;

    if ctx.small {
        // interpreter-speed lane (Miri): a ~300-call subset aimed at the `unsafe` of the
        // dependencies reached by hostile strings and numbers (UTF-8 handling, number formatting)
        let strs: Vec<Value> = ex.iter().filter(|v| v.is_string()).cloned().collect();
        for _ in 0..ctx.budget(120, 300) {
            let op = *ctx.rng.pick(&ops);
            let a = ctx.rng.pick(&ex).clone();
            let b = ctx.rng.pick(&ex).clone();
            let c = ctx.rng.pick(&strs).clone();
            let rule = match ctx.rng.below(4) {
                0 => json!({ op: [c, a, b] }),
                1 => json!({ op: [a, b] }),
                2 => json!({ op: a }),
                _ => json!({"cat": [{ op: [a, b] }, c, {"substr": [c, a, b]}]}),
            };
            let d = ctx.rng.pick(&datas).clone();
            total(ctx, "c01.apply", "miri-subset", &rule, &d);
        }
        for a in ex.iter().take(12) {
            helper1(ctx, a);
            let k = ctx.rng.below(ex.len());
            helper2(ctx, a, &ex[k]);
        }
        return;
    }

    // ---- M1(u): `log` while the caller's standard output refuses the write ----------------
    crate::props_c17::unwritable_stdout_class(ctx, "c01.apply");

    // ---- M1(a): operator matrix ------------------------------------------------------
    for op in ops.iter() {
        total(ctx, "c01.apply", "matrix-0", &json!({ *op: [] }), &datas[0]);
        for a in ex.iter() {
            idx += 1;
            if !ctx.mine(idx) {
                continue;
            }
            for d in datas.iter().take(4) {
                total(ctx, "c01.apply", "matrix-1", &json!({ *op: [a] }), d);
                total(ctx, "c01.apply", "matrix-bare", &json!({ *op: a }), d);
            }
            for b in ex.iter() {
                let d = &datas[((idx as usize) + b.to_string().len()) % datas.len()];
                total(ctx, "c01.apply", "matrix-2", &json!({ *op: [a, b] }), d);
                // index-taking positions: string first, integer extremes after it
                if matches!(*op, "substr" | "var" | "missing_some" | "reduce" | "<" | "<=" | ">" | ">=") {
                    for c in ex.iter().take(6) {
                        total(ctx, "c01.apply", "matrix-3", &json!({ *op: [a, b, c] }), d);
                    }
                    total(ctx, "c01.apply", "matrix-3", &json!({ *op: ["日本語😀", a, b] }), d);
                    total(ctx, "c01.apply", "matrix-3", &json!({ *op: [[1, 2, 3], a, b] }), d);
                }
            }
        }
    }
    // numeric path segments and keys aimed at the negative-index helper
    for k in ["-9223372036854775808", "-9223372036854775807", "9223372036854775807", "-1", "-3", "18446744073709551615"] {
        for d in datas.iter() {
            for p in [k.to_string(), format!("a.b.{}", k), format!("a.b.1.{}", k), format!("s.{}", k), format!("{}.{}", k, k)] {
                total(ctx, "c01.apply", "index-path", &json!({ "var": p }), d);
                total(ctx, "c01.apply", "index-path", &json!({"missing": [p, k]}), d);
                total(ctx, "c01.apply", "index-path", &json!({"missing_some": [1, [p]]}), d);
            }
            if let Ok(n) = k.parse::<i64>() {
                total(ctx, "c01.apply", "index-key", &json!({ "var": n }), d);
                total(ctx, "c01.apply", "index-key", &json!({"var": [n, n]}), d);
                total(ctx, "c01.apply", "index-key", &json!({"missing": [n]}), d);
            }
        }
    }
    // results forced out of range
    for (rule, cls) in [
        (json!({"+": [1e308, 1e308]}), "overflow"), (json!({"*": [1e200, 1e200]}), "overflow"), (json!({"-": [-1e308, 1e308]}), "overflow"),
        (json!({"/": [1, 0]}), "div0"), (json!({"/": [0, 0]}), "nan"), (json!({"%": [1, 0]}), "nan"), (json!({"*": [9223372036854775807i64, 2]}), "2^64"),
        (json!({"+": [9223372036854775807i64, 1]}), "2^63"), (json!({"-": [i64::MIN, 1]}), "-2^63-1"), (json!({"-": [i64::MIN]}), "neg-min"),
        (json!({"*": [5e-324, 0.5]}), "underflow"), (json!({"max": [u64::MAX, 1e308]}), "max"), (json!({"min": ["-Infinity", 1]}), "min-inf"),
        (json!({"+": ["1e309"]}), "parse-inf"), (json!({"*": ["-1e309", 0]}), "parse-inf-nan"), (json!({"%": [i64::MIN, -1]}), "min-mod-neg1"),
        (json!({"/": [i64::MIN, -1]}), "min-div-neg1"),
    ] {
        total(ctx, "c01.apply", &format!("range:{}", cls), &rule, &Value::Null);
    }
    ctx.exhaustive_parts.push(format!("35 operators x all ordered pairs of {} extreme values (bracketed, bare and with index-taking third operands)", ex.len()));

    // ---- M1(c): deep and wide documents built from text ---------------------------------
    for op in ops.iter() {
        idx += 1;
        if !ctx.mine(idx) {
            continue;
        }
        for leaf in ["1", "\"é\"", "[1,2]", "{\"var\":\"a\"}", "[]"] {
            for bracketed in [true, false] {
                if let Some((rule, d)) = deepest(op, bracketed, leaf) {
                    total(ctx, "c01.apply", &format!("deep-{}:{}", if bracketed { "bracketed" } else { "bare" }, d), &rule, &datas[2]);
                    ctx.extra.insert(format!("max_depth_{}", if bracketed { "bracketed" } else { "bare" }), json!(d));
                }
            }
        }
        // deep chain in every operand position of a multi-operand operator
        if let Some((deep, _)) = deepest("!", false, "1") {
            for pos in 0..3 {
                let mut args = vec![json!([1, 2]), json!({"var": ""}), json!(0)];
                args[pos] = deep.clone();
                // one level of array + object is spent here: shave two levels off
                if let Ok(v) = serde_json::from_str::<Value>(&json!({ *op: args }).to_string()) {
                    total(ctx, "c01.apply", "deep-in-operand", &v, &datas[1]);
                }
            }
        }
    }
    // deep *data* reached by var / cat / == / merge / in / map (recursive string form, clone, drop)
    let deep_data_txt = format!("{}1{}", "[".repeat(127), "]".repeat(127));
    if let Ok(dd) = serde_json::from_str::<Value>(&deep_data_txt) {
        for rule in [json!({"var": ""}), json!({"cat": [{"var": ""}]}), json!({"==": [{"var": ""}, "1"]}), json!({"merge": [{"var": ""}, {"var": ""}]}), json!({"in": [{"var": ""}, [{"var": ""}]]}), json!({"<=": [{"var": ""}, {"var": ""}]}), json!({"+": [{"var": ""}]}), json!({"map": [{"var": ""}, {"var": ""}]}), json!({"var": "0.0.0.0.0.0.0.0.0.0.0.0.0.0.0.0.0.0.0.0"}), json!({"!!": [{"var": ""}]}), json!({"log": {"var": "0.0.0.0"}}), json!({"reduce": [{"var": ""}, {"var": "current"}, 0]}), json!({"all": [{"var": ""}, {"var": ""}]}), json!({"missing": [{"var": "0"}]})] {
            total(ctx, "c01.apply", "deep-data", &rule, &dd);
        }
    }
    let deep_obj_txt = format!("{}1{}", "{\"a\":".repeat(127), "}".repeat(127));
    if let Ok(dd) = serde_json::from_str::<Value>(&deep_obj_txt) {
        let path = vec!["a"; 126].join(".");
        for rule in [json!({ "var": path }), json!({"missing": [path, "a.a.b"]}), json!({"cat": [{"var": ""}, {"var": "a"}]}), json!({"===": [{"var": ""}, {"var": ""}]}), json!({"in": [{"var": "a"}, [{"var": "a"}]]})] {
            total(ctx, "c01.apply", "deep-data", &rule, &dd);
        }
    }
    // wide documents
    idx += 1;
    if ctx.mine(idx) {
        let wide: Vec<Value> = (0..20_000).map(|i| json!(i)).collect();
        let wide_s: String = "é😀a".repeat(20_000);
        for rule in [json!({"+": wide}), json!({"*": wide}), json!({"cat": wide}), json!({"merge": [wide, wide]}), json!({"max": wide}), json!({"and": wide}), json!({"or": wide}), json!({"if": wide}), json!({"missing": wide}),
                     json!({"map": [wide, {"var": ""}]}), json!({"reduce": [wide, {"+": [{"var": "current"}, {"var": "accumulator"}]}, 0]}), json!({"all": [wide_s, true]}), json!({"substr": [wide_s, -59_999, -1]}), json!({"in": ["a😀", wide_s]}), json!({"var": [wide_s]}), json!({"none": [wide, {"<": [{"var": ""}, 0]}]}), json!({"filter": [wide, {"%": [{"var": ""}, 2]}]})] {
            total(ctx, "c01.apply", "wide", &rule, &json!({"a": 1}));
        }
    }

    // ---- M1(f): shallow rules that build deep or large VALUES ---------------------------------
    // a fold can wrap its accumulator once per element: the value gets as deep as the array is
    // long although rule and data are flat (recursive clone / print / drop of such a value is
    // where a stack overflow would come from)
    idx += 1;
    if ctx.mine(idx) {
        for n in [100usize, 126, 127, 128, 129, 1000, 5000, 20_000, 100_000] {
            let arr = Value::Array(vec![json!(0); n]);
            for rule in [
                json!({"reduce": [{"var": ""}, {"var": ""}, 0]}),
                json!({"reduce": [{"var": ""}, {"merge": [[[{"var": "accumulator"}]]]}, []]}),
                json!({"reduce": [{"var": ""}, {"if": [true, {"var": ""}]}, null]}),
                json!({"cat": [{"reduce": [{"var": ""}, {"var": ""}, 0]}]}),
                json!({"==": [{"reduce": [{"var": ""}, {"var": ""}, 0]}, 1]}),
                json!({"log": {"reduce": [{"var": ""}, {"var": ""}, 0]}}),
                json!({"map": [[1, 2], {"reduce": [[0, 0, 0], {"var": ""}, {"var": ""}]}]}),
                json!({"reduce": [{"var": ""}, {"reduce": [[1], {"var": ""}, {"var": "accumulator"}]}, 0]}),
                json!({"in": [{"reduce": [{"var": ""}, {"var": ""}, 0]}, [{"reduce": [{"var": ""}, {"var": ""}, 0]}]]}),
            ] {
                total(ctx, "c01.apply", &format!("deep-value:{}", if n <= 127 { "within-limit" } else { "beyond-limit" }), &rule, &arr);
            }
        }
    }

    // ---- M1(g): very wide operand lists in which nothing decides early ---------------------------
    // (a recursive rewrite of a lazy operator's loop is invisible until the list is long enough)
    idx += 1;
    if ctx.mine(idx) {
        let wide_sizes: &[usize] = if ctx.scale >= 1.0 { &[20_000, 100_000, 400_000] } else { &[20_000, 100_000] };
        for &n in wide_sizes {
            let falsy = vec![json!(false); n];
            let truthy = vec![json!(1); n];
            let zero_one: Vec<Value> = (0..n).map(|i| if i % 2 == 0 { json!(0) } else { json!("b") }).collect();
            for rule in [json!({ "if": falsy }), json!({ "?:": zero_one }), json!({ "or": falsy }), json!({ "and": truthy }), json!({ "+": truthy }), json!({ "cat": truthy }), json!({ "merge": truthy }), json!({ "max": truthy }),
                         json!({"missing": (0..n.min(100_000)).map(|i| json!(format!("k{}", i))).collect::<Vec<_>>()})] {
                total(ctx, "c01.apply", "wide-lazy", &rule, &Value::Null);
            }
            let arr = Value::Array(vec![json!(0); n]);
            for rule in [json!({"all": [{"var": ""}, {"!": [{"var": ""}]}]}), json!({"none": [{"var": ""}, {"var": ""}]}), json!({"filter": [{"var": ""}, {"var": ""}]}), json!({"map": [{"var": ""}, {"var": ""}]}), json!({"reduce": [{"var": ""}, {"var": "accumulator"}, 0]})] {
                total(ctx, "c01.apply", "wide-lazy", &rule, &arr);
            }
        }
    }
    // ---- M1(h): error paths that quote their operands --------------------------------------------
    // big multi-byte operands in every operator position: whatever an error message quotes,
    // truncates or measures, some alignment puts a character boundary in the wrong place
    let echo_sizes: &[usize] = if ctx.scale >= 1.0 { &[1500, 20_000, 150_000] } else { &[1500, 20_000] };
    for (si, size) in echo_sizes.iter().enumerate() {
        for k in 0..4usize {
            idx += 1;
            if !ctx.mine(idx) {
                continue;
            }
            let body: String = std::iter::repeat("😀日é").take(size / 9).collect();
            let s = format!("{}{}", "a".repeat(k), body);
            let big_s = json!(s);
            let big_a = json!([s, [s], 1]);
            let big_o = json!({ "k": s, "j": [s] });
            let big_key_o = { let mut m = serde_json::Map::new(); m.insert(s.clone(), json!(1)); Value::Object(m) };
            let data = json!({"s": big_s, "a": big_a, "o": big_o, "ko": big_key_o});
            for op in ops.iter() {
                for (vname, lit) in [("s", &big_s), ("a", &big_a), ("o", &big_o), ("ko", &big_key_o)] {
                    let v = json!({ "var": vname });
                    for rule in [json!({ *op: [v] }), json!({ *op: [v, 1] }), json!({ *op: [1, v] }), json!({ *op: [v, v] }), json!({ *op: ["x", 1, v] }), json!({ *op: [v, 1, 1] }), json!({ *op: [[1], v, v] }), json!({ *op: v })] {
                        total(ctx, "c01.apply", ["error-echo:1.5KB", "error-echo:20KB", "error-echo:150KB"][si], &rule, &data);
                    }
                    if si == 0 {
                        // the same operands written into the rule itself, bracketed and bare (a message that quotes
                        // the rule text rather than an evaluated operand)
                        for rule in [json!({ *op: [lit, 1] }), json!({ *op: [1, lit] }), json!({ *op: [lit] }), json!({ *op: lit }), json!({ *op: [1, 2, lit] })] {
                            total(ctx, "c01.apply", "error-echo:literal", &rule, &data);
                        }
                    }
                }
            }
        }
    }

    // ---- M1(h'): the same far beyond the sizes above -------------------------------------------
    // operands around 2^20, 2^22 and 2^24 bytes with a multi-byte character across the power of two
    // (a cap on an echoed operand), and numeric literals with up to 70 000 digits (a digit counter)
    if !ctx.small {
        let far_sizes: &[usize] = if ctx.thorough() && ctx.scale >= 1.0 { &[1 << 20, 1 << 22, 1 << 24] } else { &[1 << 20] };
        for (si, size) in far_sizes.iter().enumerate() {
            for k in 0..9usize {
                idx += 1;
                if !ctx.mine(idx) {
                    continue;
                }
                // 9-byte groups: with k = 0..8 leading ASCII bytes every alignment of the group occurs at the power of two
                let body: String = std::iter::repeat("😀日é").take(size / 9 + 8).collect();
                let s = format!("{}{}", "a".repeat(k), body);
                let data = json!({"s": s, "a": [s]});
                let few = ["+", "*", "-", "/", "%", "max", "min", "<", "==", "===", "cat", "substr", "in", "merge", "!", "var", "missing", "if", "and", "log", "map", "reduce"];
                for op in ops.iter() {
                    if si > 0 && !few.contains(op) {
                        continue;
                    }
                    for vname in ["s", "a"] {
                        let v = json!({ "var": vname });
                        for rule in [json!({ *op: [v] }), json!({ *op: [v, 1] }), json!({ *op: [1, v] }), json!({ *op: [v, 1, 1] })] {
                            total(ctx, "c01.apply", ["error-echo:1MiB", "error-echo:4MiB", "error-echo:16MiB"][si], &rule, &data);
                        }
                    }
                }
            }
        }
        for (di, n) in crate::props_far::DIGITS.iter().enumerate() {
            idx += 1;
            if !ctx.mine(idx) || (ctx.scale < 1.0 && di % 2 == 1) {
                continue;
            }
            for s in [format!("0x{}", "f".repeat(*n)), format!("0x{}1", "0".repeat(*n)), format!("0o{}", "7".repeat(*n)), format!("0b{}", "1".repeat(*n)), format!("1{}", "0".repeat(*n)), format!("0.{}1", "0".repeat(*n)), format!("{}e{}", "9".repeat(*n), n), format!("1e-{}", "9".repeat(n / 100)), format!("{}1", " ".repeat(*n))] {
                let sv = json!(s);
                helper1(ctx, &sv);
                for rule in [json!({"+": [sv]}), json!({"*": [sv, 2]}), json!({"==": [sv, 1]}), json!({"<": [sv, 1]}), json!({"<": [1, sv, 2]}), json!({"max": [sv]}), json!({"-": [sv]}), json!({"%": [sv, 7]}), json!({"substr": ["abc", sv]}), json!({"var": sv}), json!({"missing_some": [sv, ["a"]]})] {
                    total(ctx, "c01.apply", "far-digits", &rule, &Value::Null);
                }
            }
        }
    }

    // ---- M1(b): random trees -------------------------------------------------------------
    let n = ctx.budget(20_000, 3_000_000);
    let mut g = RuleGen::new();
    g.probes = 1;
    g.poison = 5;
    for i in 0..n {
        let d = rand_data(&mut ctx.rng, 4, 10, &mut 0);
        let mut rule = g.rule(&mut ctx.rng, &d, 5, 4);
        // splice extreme values into the rule
        if ctx.rng.chance(1, 2) {
            splice(&mut rule, &ex, &mut ctx.rng);
        }
        total(ctx, "c01.apply", "random-tree", &rule, &d);
        if i % 2000 == 0 {
            ctx.sample(json!({"rule": rule, "data": d}));
        }
    }

    // ---- M1(e): mutated texts ---------------------------------------------------------------
    // byte / token level mutations of valid rule texts, re-parsed by serde_json: shapes no
    // generator would write (operators as data, arrays where scalars are expected, swapped tokens)
    let n = ctx.budget(15_000, 2_000_000);
    let toks = ["[", "]", "{", "}", ",", ":", "\"var\"", "\"\"", "null", "true", "1", "-1", "1e308", "-9223372036854775808", "18446744073709551615", "\"é😀\"", "[]", "{}", "\"a.b\"", "0.5", "\"reduce\"", "\"if\"", "\"substr\"", "\"missing_some\""];
    for i in 0..n {
        let d = rand_data(&mut ctx.rng, 3, 10, &mut 0);
        let base = g.rule(&mut ctx.rng, &d, 4, 3).to_string();
        let mut bytes: Vec<u8> = base.into_bytes();
        for _ in 0..1 + ctx.rng.below(4) {
            if bytes.is_empty() {
                break;
            }
            let k = ctx.rng.below(bytes.len());
            match ctx.rng.below(4) {
                0 => {
                    let t = ctx.rng.pick(&toks).as_bytes().to_vec();
                    bytes.splice(k..k, t);
                }
                1 => {
                    let e = (k + 1 + ctx.rng.below(6)).min(bytes.len());
                    bytes.drain(k..e);
                }
                2 => {
                    let e = (k + 1 + ctx.rng.below(12)).min(bytes.len());
                    let chunk: Vec<u8> = bytes[k..e].to_vec();
                    let at = ctx.rng.below(bytes.len());
                    bytes.splice(at..at, chunk);
                }
                _ => {
                    let t = ctx.rng.pick(&toks).as_bytes().to_vec();
                    let e = (k + 1 + ctx.rng.below(4)).min(bytes.len());
                    bytes.splice(k..e, t);
                }
            }
        }
        if let Ok(text) = String::from_utf8(bytes) {
            if let Ok(rule) = serde_json::from_str::<Value>(&text) {
                total(ctx, "c01.apply", "mutated-text", &rule, &d);
                // and with rule and data swapped: data shapes as rules
                if i % 4 == 0 {
                    total(ctx, "c01.apply", "mutated-text", &d, &rule);
                }
            } else {
                ctx.cell("mutated-text:not-json");
            }
        }
    }

    // ---- M2: public helpers ---------------------------------------------------------------
    let mut hv = ex.clone();
    hv.extend(v_all());
    let mut hi = 0u64;
    for a in hv.iter() {
        hi += 1;
        if !ctx.mine(hi) {
            continue;
        }
        helper1(ctx, a);
        for b in hv.iter() {
            helper2(ctx, a, b);
        }
    }
    ctx.exhaustive_parts.push(format!("every public js_op helper on all ordered pairs of {} values", hv.len()));
    ctx.sample(json!({"substr": ["abc", i64::MIN]}));
    ctx.sample(json!({"var": i64::MIN}));
}

fn splice(rule: &mut Value, ex: &[Value], r: &mut crate::rng::Rng) {
    match rule {
        Value::Object(m) => {
            for (_, v) in m.iter_mut() {
                splice(v, ex, r);
            }
        }
        Value::Array(a) => {
            for v in a.iter_mut() {
                if r.chance(1, 3) && !v.is_object() {
                    *v = r.pick(ex).clone();
                } else {
                    splice(v, ex, r);
                }
            }
        }
        _ => {}
    }
}

fn helper_report(ctx: &mut Ctx, name: &str, res: Result<(), String>, a: &Value, b: &Value) {
    ctx.mon("c01.helpers").observed += 1;
    ctx.mon("c01.helpers").judged += 1;
    ctx.evaluations += 1;
    ctx.cell(&format!("helper:{}", name));
    if let Err(p) = res {
        let site = p.rsplit(" @ ").next().unwrap_or("").to_string();
        ctx.violation_x("c01.helpers", &format!("helper-panic:{}:{}", name, site), &json!({"helper": name}), &json!([a, b]), json!("a result or an error value"), json!({ "panic": p }), "a public coercion helper panicked", json!({"helper": name, "args": [a, b]}));
    }
}

fn helper1(ctx: &mut Ctx, a: &Value) {
    let x = a.clone();
    helper_report(ctx, "to_string", observe::catch(move || { let _ = js_op::to_string(&x); }), a, &Value::Null);
    let x = a.clone();
    helper_report(ctx, "to_number", observe::catch(move || { let _ = js_op::to_number(&x); }), a, &Value::Null);
    let x = a.clone();
    helper_report(ctx, "to_negative", observe::catch(move || { let _ = js_op::to_negative(&x); }), a, &Value::Null);
    let x = a.clone();
    helper_report(ctx, "parse_float", observe::catch(move || { let _ = js_op::parse_float(&x); }), a, &Value::Null);
    if let Value::String(s) = a {
        let s2 = s.clone();
        helper_report(ctx, "str_to_number", observe::catch(move || { let _ = js_op::str_to_number(&s2); }), a, &Value::Null);
    }
}

fn helper2(ctx: &mut Ctx, a: &Value, b: &Value) {
    type F2 = fn(&Value, &Value) -> bool;
    let bools: [(&str, F2); 8] = [("abstract_eq", js_op::abstract_eq), ("abstract_ne", js_op::abstract_ne), ("abstract_lt", js_op::abstract_lt), ("abstract_lte", js_op::abstract_lte), ("abstract_gt", js_op::abstract_gt), ("abstract_gte", js_op::abstract_gte), ("strict_eq", js_op::strict_eq), ("strict_ne", js_op::strict_ne)];
    for (name, f) in bools.iter() {
        let (x, y, f) = (a.clone(), b.clone(), *f);
        helper_report(ctx, name, observe::catch(move || { let _ = f(&x, &y); }), a, b);
    }
    let (x, y) = (a.clone(), b.clone());
    helper_report(ctx, "abstract_plus", observe::catch(move || { let _ = js_op::abstract_plus(&x, &y); }), a, b);
    let (x, y) = (a.clone(), b.clone());
    helper_report(ctx, "abstract_minus", observe::catch(move || { let _ = js_op::abstract_minus(&x, &y); }), a, b);
    let (x, y) = (a.clone(), b.clone());
    helper_report(ctx, "abstract_div", observe::catch(move || { let _ = js_op::abstract_div(&x, &y); }), a, b);
    let (x, y) = (a.clone(), b.clone());
    helper_report(ctx, "abstract_mod", observe::catch(move || { let _ = js_op::abstract_mod(&x, &y); }), a, b);
    let (x, y) = (a.clone(), b.clone());
    helper_report(ctx, "abstract_max", observe::catch(move || { let _ = js_op::abstract_max(&vec![&x, &y]); }), a, b);
    let (x, y) = (a.clone(), b.clone());
    helper_report(ctx, "abstract_min", observe::catch(move || { let _ = js_op::abstract_min(&vec![&x, &y]); }), a, b);
    let (x, y) = (a.clone(), b.clone());
    helper_report(ctx, "parse_float_add", observe::catch(move || { let _ = js_op::parse_float_add(&vec![&x, &y]); }), a, b);
    let (x, y) = (a.clone(), b.clone());
    helper_report(ctx, "parse_float_mul", observe::catch(move || { let _ = js_op::parse_float_mul(&vec![&x, &y]); }), a, b);
}


/// Error paths that quote an operand, in the check of every value property: big multi-byte operands
/// (as evaluated values and as literals, bracketed and bare) in every position of the property's own
/// operators, at four byte alignments; judged against the model, so a panic where the statements
/// demand an error (or a value) is a violation of that property.
pub fn error_echo_own(ctx: &mut Ctx, monitor: &str, ops: &[&str]) {
    let all = all_ops();
    let ops: Vec<&str> = if ops.is_empty() { all.clone() } else { ops.to_vec() };
    let mut idx = 0u64;
    for size in [150usize, 1500] {
        for k in 0..4usize {
            let body: String = std::iter::repeat("\u{1F600}\u{65e5}\u{e9}").take(size / 9).collect();
            let s = format!("{}{}", "a".repeat(k), body);
            let big_s = json!(s);
            let big_a = json!([s, [s], 1]);
            let big_o = json!({ "k": s, "j": [s] });
            let big_key_o = {
                let mut m = serde_json::Map::new();
                m.insert(s.clone(), json!(1));
                Value::Object(m)
            };
            let data = json!({"s": big_s, "a": big_a, "o": big_o, "ko": big_key_o});
            for op in ops.iter() {
                idx += 1;
                if !ctx.mine(idx) {
                    continue;
                }
                for (vname, lit) in [("s", &big_s), ("a", &big_a), ("o", &big_o), ("ko", &big_key_o)] {
                    let v = json!({ "var": vname });
                    for rule in [json!({ *op: [v] }), json!({ *op: [v, 1] }), json!({ *op: [1, v] }), json!({ *op: [v, v] }), json!({ *op: ["x", 1, v] }), json!({ *op: [v, 1, 1] }), json!({ *op: [[1], v, v] }), json!({ *op: v }),
                                 json!({ *op: [lit, 1] }), json!({ *op: [1, lit] }), json!({ *op: [lit] }), json!({ *op: lit }), json!({ *op: [1, 2, lit] }), json!({ *op: [{}, lit] }), json!({ *op: [lit, {}] }), json!({ *op: [null, lit] })] {
                        ctx.check(monitor, &rule, &data);
                    }
                }
            }
        }
    }
    ctx.cell("error-echo:own-operators");
}
