use crate::ctx::Ctx;
pub fn c01(_c: &mut Ctx) {}
