//! Far ladders: the same monitors at sizes well beyond the regular ladders (`props_sizes`), added
//! after the fifth round of seeded changes, whose authors knew where the regular ladders end:
//! operand / element counts around 2^15, 2^16 and 2^17 (a count kept in 16 bits), digit counts up
//! to 70 000 (a counter kept in 16 bits), results beyond 16 MiB (a size cap), nesting depths 513
//! to 5000 (a depth cap; only reachable through the Rust API). The deep part runs on a thread with
//! a 1 GiB stack: the interpreter, the reference model and serde all recurse over the value, and
//! a stack overflow of the *unchanged* tree at these depths is outside every property's domain
//! (C01 is stated for documents the text interfaces deliver, at most 127 levels).

use crate::corpus::*;
use crate::ctx::Ctx;
use crate::observe::Outcome;
use serde_json::{json, Value};

pub const COUNTS: &[usize] = &[10_000, 20_001, 32_767, 32_768, 32_769, 65_535, 65_536, 65_537, 65_538, 65_539, 100_001, 131_073];
pub const DEPTHS: &[usize] = &[513, 600, 1000, 1001, 1025, 2049, 3000, 5000];
pub const DIGITS: &[usize] = &[8_192, 10_000, 16_385, 20_000, 32_769, 40_000, 65_537, 70_000];

fn var(k: &str) -> Value {
    json!({ "var": k })
}

/// Every shard takes a slice of a far ladder (quick); thorough runs take all of it in every 4th shard.
fn slice(ctx: &Ctx, list: &[usize]) -> Vec<usize> {
    if ctx.small {
        return vec![];
    }
    list.iter().cloned().enumerate().filter(|(i, _)| ctx.mine(*i as u64 + 3) || (ctx.thorough() && ctx.shard % 4 == 0)).map(|(_, n)| n).collect()
}

/// Run `f` on a thread with a 1 GiB stack (see the module comment).
pub fn big_stack<F: FnOnce(&mut Ctx) + Send>(ctx: &mut Ctx, f: F) {
    if cfg!(miri) {
        return;
    }
    std::thread::scope(|s| {
        let h = std::thread::Builder::new().stack_size(1 << 30).spawn_scoped(s, move || {
            crate::observe::install_panic_hook();
            f(ctx)
        });
        match h {
            Ok(h) => {
                if let Err(p) = h.join() {
                    std::panic::resume_unwind(p);
                }
            }
            Err(_) => {} // no memory for the stack: the far-depth part is skipped (floors report it)
        }
    });
}

fn one_key(k: &str, v: Value) -> Value {
    let mut m = serde_json::Map::new();
    m.insert(k.to_string(), v);
    Value::Object(m)
}

/// Built with explicit constructors: `json!({"k": v})` copies `v` (quadratic over a nesting loop).
fn nest(leaf: Value, d: usize, kind: usize) -> Value {
    let mut v = leaf;
    for k in 0..d {
        v = match kind {
            0 => Value::Array(vec![v]),
            1 => one_key("k", v),
            2 => {
                let mut m = serde_json::Map::new();
                m.insert("k".to_string(), v);
                m.insert("j".to_string(), json!(1));
                Value::Object(m)
            }
            _ => {
                if k % 2 == 0 {
                    Value::Array(vec![v])
                } else {
                    one_key("k", v)
                }
            }
        };
    }
    v
}

/// Judge one call on deep operands without ever putting the deep value into a report.
fn deep_check(ctx: &mut Ctx, monitor: &str, what: &str, d: usize, rule: &Value, data: &Value) -> Outcome {
    let t0 = std::time::Instant::now();
    let obs = ctx.observe(rule, data);
    let t1 = t0.elapsed();
    let (mo, tr) = crate::refsem::model(rule, data);
    let t2 = t0.elapsed();
    // judge() embeds rule / data in a violation: violation_x flattens values nested deeper than 100
    ctx.judge(monitor, rule, data, &obs, &mo, &tr);
    if std::env::var("JL_FAR_TIMING").is_ok() {
        eprintln!("far {} {} d={} observe={:?} model={:?} judge={:?}", monitor, what, d, t1, t2 - t1, t0.elapsed() - t2);
    }
    ctx.mark_nontrivial_key(&format!("{}:{}:{}", monitor, what, d));
    obs.out
}

// ---------------------------------------------------------------------------------------

pub fn c02(ctx: &mut Ctx) {
    let depths = slice(ctx, DEPTHS);
    big_stack(ctx, move |ctx| {
        for d in depths {
            for kind in 0..4 {
                for leaf in [json!({"log": "LEAK-deep"}), json!(1), json!({"var": "a"})] {
                    // a single-key object with the unknown key "k" is a literal at every level
                    let lit = nest(json!([leaf, 2]), d, kind);
                    let out = deep_check(ctx, "c02.model", "literal", d, &lit, &json!({"a": 1}));
                    ctx.mon("c02.identity").observed += 1;
                    ctx.mon("c02.identity").judged += 1;
                    if !matches!(&out, Outcome::Ok(v) if *v == lit) {
                        ctx.violation("c02.identity", &format!("not-identity:far-depth:{}", kind), &json!({"far-depth literal kind": kind, "depth": d}), &Value::Null, json!("the literal itself"), out.brief(), "a deeply nested non-rule value did not evaluate to itself");
                    }
                    // and as an operand
                    deep_check(ctx, "c02.model", "literal-operand", d, &json!({"merge": [lit, 1]}), &json!({"a": 1}));
                }
            }
            ctx.cell("far-ladder");
        }
    });
}

pub fn c03(ctx: &mut Ctx) {
    for n in slice(ctx, COUNTS) {
        for op in all_ops() {
            // cheap operands: the arity verdict does not depend on them. Operators whose every
            // documented count is small must reject; variadic ones must accept.
            let documented = crate::refsem::arity_ok(op, n) == Some(true);
            let args: Vec<Value> = match op {
                "if" | "?:" | "and" => vec![json!(0); n],
                "or" => vec![json!(0); n],
                "missing" => vec![json!("a"); n],
                "merge" | "cat" => vec![json!(1); n],
                _ => vec![json!(1); n],
            };
            let rule = json!({ op: args });
            let obs = ctx.observe(&rule, &json!({"a": 1}));
            ctx.mon("c03.arity").observed += 1;
            ctx.mon("c03.arity").judged += 1;
            let desc = json!({"op": op, "count": n, "operands": "n copies of a small constant"});
            if !documented && !matches!(obs.out, Outcome::Err(_)) {
                ctx.violation("c03.arity", &format!("accepted-undocumented-count:{}:far", op), &desc, &Value::Null, json!("an error"), obs.out.brief(), "a very large operand count outside the documented set was not rejected");
            }
            if documented && !matches!(obs.out, Outcome::Ok(_)) {
                ctx.violation("c03.arity", &format!("rejected-documented-count:{}:far", op), &desc, &Value::Null, json!("a value"), obs.out.brief(), "a very large documented operand count was rejected");
            }
        }
        ctx.cell("far-ladder");
        ctx.mark_nontrivial_key(&format!("c03:far:{}", n));
    }
}

pub fn c05(ctx: &mut Ctx) {
    let data = json!({"t": 1, "f": 0});
    for n in slice(ctx, COUNTS) {
        // nothing decides until the very end; a probe at the end shows that the end was reached once
        for op in ["if", "?:", "or", "and"] {
            let filler = if op == "and" { json!(1) } else { json!(0) };
            let mut args = vec![filler; n];
            let last = n - 1;
            args[last] = json!({"log": "end"});
            let rule = json!({ op: args });
            let obs = ctx.observe(&rule, &data);
            ctx.mon("c05.model").observed += 1;
            ctx.mon("c05.model").judged += 1;
            // if / ?: with n operands: an odd count ends in an else branch, an even count in a
            // (condition, branch) pair whose condition is the filler 0 -> branch not taken -> null
            let (want, lines): (Value, usize) = match op {
                "or" | "and" => (json!("end"), 1),
                _ => {
                    if n % 2 == 1 {
                        (json!("end"), 1)
                    } else {
                        (Value::Null, 0)
                    }
                }
            };
            let ok = matches!(&obs.out, Outcome::Ok(v) if *v == want) && (!crate::observe::capture_active() || obs.logs.len() == lines);
            if !ok {
                ctx.violation("c05.model", &format!("far-wide:{}", op), &json!({"op": op, "operands": n, "shape": "n-1 non-deciding constants, then {log: end}"}), &data, json!({"ok": want, "log_lines": lines}), json!({"out": obs.out.brief(), "log_lines": obs.logs.len()}), "a very wide lazy operator did not return its last operand / else branch");
            }
        }
        ctx.cell("far-ladder");
        ctx.mark_nontrivial_key(&format!("c05:far:{}", n));
    }
}

pub fn c06(ctx: &mut Ctx) {
    let depths = slice(ctx, DEPTHS);
    big_stack(ctx, move |ctx| {
        for d in depths {
            // chains of negations / double negations around a corner value: the verdict alternates
            for (leaf, truthy) in [(json!([]), false), (json!("0"), true), (json!([0]), true), (json!(0.0), false)] {
                for bracketed in [true, false] {
                    let mut rule = json!({"!!": [leaf]});
                    for _ in 0..d {
                        rule = if bracketed { one_key("!", Value::Array(vec![rule])) } else { one_key("!", rule) };
                    }
                    let out = deep_check(ctx, "c06.model", "negation-chain", d, &rule, &Value::Null);
                    let want = if d % 2 == 0 { truthy } else { !truthy };
                    ctx.mon("c06.table").observed += 1;
                    ctx.mon("c06.table").judged += 1;
                    if !matches!(&out, Outcome::Ok(Value::Bool(b)) if *b == want) {
                        ctx.violation("c06.table", "negation-chain:far-depth", &json!({"far-depth negation chain": d}), &Value::Null, json!(want), out.brief(), "a long chain of negations did not give the alternating verdict");
                    }
                }
            }
            // a deeply nested array is truthy, whatever is at the bottom
            let deep = nest(json!(0), d, 0);
            for rule in [json!({"!!": [var("v")]}), json!({"if": [var("v"), "T", "F"]}), json!({"filter": [[1], var("")]})] {
                deep_check(ctx, "c06.model", "deep-value", d, &rule, &json!({ "v": deep }));
            }
            ctx.cell("far-ladder");
        }
    });
}

/// The table in very wide decisions: thousands of falsy (truthy) corner values before the deciding one.
pub fn c06_wide(ctx: &mut Ctx) {
    let falsy = [json!(false), Value::Null, json!(0), json!(-0.0), json!(""), json!([])];
    let truthy = [json!("0"), json!([0]), json!([[]]), json!({}), json!(" "), json!(-1), json!("false")];
    for n in slice(ctx, COUNTS) {
        let mut if_args: Vec<Value> = Vec::with_capacity(n + 1);
        for i in 0..n / 2 {
            if_args.push(falsy[i % falsy.len()].clone());
            if_args.push(json!("WRONG"));
        }
        if_args.push(json!("ELSE"));
        let mut or_args: Vec<Value> = (0..n).map(|i| falsy[i % falsy.len()].clone()).collect();
        or_args.push(json!("0"));
        let mut and_args: Vec<Value> = (0..n).map(|i| truthy[i % truthy.len()].clone()).collect();
        and_args.push(json!([]));
        for (rule, want) in [(json!({ "if": if_args.clone() }), json!("ELSE")), (json!({ "?:": if_args }), json!("ELSE")), (json!({ "or": or_args }), json!("0")), (json!({ "and": and_args }), json!([]))] {
            let obs = ctx.observe(&rule, &Value::Null);
            ctx.mon("c06.table").observed += 1;
            ctx.mon("c06.table").judged += 1;
            if !matches!(&obs.out, Outcome::Ok(v) if *v == want) {
                ctx.violation("c06.table", &format!("far-wide:{}", crate::ctx::top_op(&rule)), &json!({"op": crate::ctx::top_op(&rule), "operands": n, "shape": "corner values that do not decide, then the deciding one"}), &Value::Null, json!({ "ok": want }), obs.out.brief(), "a very wide decision over corner values did not reach the deciding operand");
            }
        }
        ctx.cell("far-ladder");
        ctx.mark_nontrivial_key(&format!("c06:far-wide:{}", n));
    }
}

/// Deep arrays compare with primitives through their string form (C07, C09) and are pieces of `cat` (C16).
pub fn strings_of_deep_arrays(ctx: &mut Ctx, pid: &'static str) {
    let depths = slice(ctx, DEPTHS);
    big_stack(ctx, move |ctx| {
        for d in depths {
            for leaf in [json!(5), json!("x"), json!(1.5)] {
                let text = crate::refsem::to_str(&leaf);
                let deep = nest(leaf.clone(), d, 0);
                let two = json!(["a", deep.clone(), null, "€"]);
                let data = json!({"deep": deep, "two": two, "text": text, "joined": format!("a,{},,€", text)});
                let rules: Vec<Value> = match pid {
                    "C07" => vec![json!({"==": [var("deep"), var("text")]}), json!({"==": [var("text"), var("deep")]}), json!({"!=": [var("deep"), var("text")]}), json!({"==": [var("two"), var("joined")]}), json!({"==": [var("deep"), 5]}), json!({"==": [var("deep"), ""]})],
                    "C08" => vec![json!({"===": [var("deep"), var("deep")]}), json!({"!==": [var("deep"), var("text")]})],
                    "C09" => vec![json!({">=": [var("deep"), var("text")]}), json!({"<=": [var("deep"), 5]}), json!({"<": [var("deep"), 6]}), json!({">": [var("two"), "a"]}), json!({"<": [4, var("deep"), 6]}), json!({"<=": [var("text"), var("deep")]}), json!({">": [var("deep"), ""]})],
                    _ => vec![json!({"cat": ["<", var("deep"), ">"]}), json!({"cat": [var("two")]}), json!({"cat": [var("deep"), var("two")]}), json!({"substr": [{"cat": [var("two")]}, 1]})],
                };
                let monitor = match pid {
                    "C07" => "c07.model",
                    "C08" => "c08.model",
                    "C09" => "c09.model",
                    _ => "c16.cat.model",
                };
                for r in rules {
                    deep_check(ctx, monitor, "deep-array-operand", d, &r, &data);
                }
            }
            ctx.cell("far-ladder");
        }
    });
}

pub fn c10(ctx: &mut Ctx) {
    // digit counts far beyond any double's precision: decimal and radix literals as operands
    for n in slice(ctx, DIGITS) {
        let strs = vec![
            format!("1{}", "0".repeat(n)),
            format!("0.{}1", "0".repeat(n)),
            format!("{}.{}", "9".repeat(n), "9".repeat(n)),
            format!("1{}e-{}", "0".repeat(n), n),
            format!("0.{}1e{}", "0".repeat(n), n + 1),
            format!("0x{}", "f".repeat(n)),
            format!("0x{}1", "0".repeat(n)),
            format!("0o{}", "7".repeat(n)),
            format!("0b{}", "1".repeat(n)),
            format!("0b{}1", "0".repeat(n)),
            format!("{}1", " ".repeat(n)),
            format!("1{}x", "0".repeat(n)),
        ];
        for s in strs {
            for op in ["+", "*", "-", "max"] {
                crate::props_values::c10_case_pub(ctx, op, &[json!(s)]);
            }
            crate::props_values::c10_case_pub(ctx, "/", &[json!(s), json!(3)]);
            crate::props_values::c10_case_pub(ctx, "+", &[json!([s]), json!(1)]);
        }
        ctx.cell("far-ladder");
        ctx.mark_nontrivial_key(&format!("c10:far-digits:{}", n));
    }
    // operand counts
    for n in slice(ctx, COUNTS) {
        for tuple in [vec![json!(1); n], (0..n).map(|i| if i == n - 1 { json!("x") } else { json!(1) }).collect::<Vec<_>>(), (0..n).map(|i| json!((i % 7) as f64 * 0.1)).collect::<Vec<_>>()] {
            for op in ["+", "*", "max", "min"] {
                crate::props_values::c10_case_pub(ctx, op, &tuple);
            }
        }
        ctx.cell("far-ladder");
    }
}

/// Decimal literals: every mantissa of a small pool at every decimal-point position and every
/// exponent a double can have (and some it cannot). A fast path for "short" literals has its
/// boundary somewhere in this grid (10^22 is the largest exact power of ten).
pub fn exponent_grid(ctx: &mut Ctx, f: &mut dyn FnMut(&mut Ctx, &str)) {
    let mantissas = ["1", "15", "5", "123", "9", "25", "3", "17", "1234567", "123456789012345", "999999999999999", "9007199254740993", "4503599627370497", "12345678901234567", "99999999999999999999", "2", "7"];
    let mut idx = 0u64;
    for m in mantissas.iter() {
        for point in 0..=m.len().min(4) {
            idx += 1;
            if !ctx.mine(idx) {
                continue;
            }
            // digits with a decimal point after `point` digits from the left (0 = ".ddd" written as "0.ddd")
            let body = if point == 0 { format!("0.{}", m) } else if point >= m.len() { m.to_string() } else { format!("{}.{}", &m[..point], &m[point..]) };
            let exps: Vec<i32> = if ctx.thorough() { (-345..=330).collect() } else { (-345i32..=330).filter(|e| (-40..=40).contains(e) || *e % 7 == 0 || e.abs() > 290).collect() };
            for e in exps {
                f(ctx, &format!("{}e{}", body, e));
                if e % 5 == 0 {
                    f(ctx, &format!("-{}E+{}", body, e.abs()));
                }
            }
        }
    }
    ctx.cell("exponent-grid");
}

pub fn c13(ctx: &mut Ctx) {
    let depths = slice(ctx, &[128, 129, 200, 513, 1025, 3000]);
    big_stack(ctx, move |ctx| {
        for d in depths {
            // elements / initial values nested deeper than JSON text can be, which the expression
            // does not propagate: counting, picking a shallow member, a constant
            let deep_el = nest(json!(7), d, 0);
            let coll = json!([{"n": 1, "deep": deep_el.clone()}, {"n": 2, "deep": deep_el.clone()}, {"n": 3, "deep": [deep_el.clone()]}]);
            let data = json!({"coll": coll, "deep": deep_el});
            for rule in [
                json!({"reduce": [var("coll"), {"+": [var("accumulator"), 1]}, 0]}),
                json!({"reduce": [var("coll"), {"+": [var("accumulator"), var("current.n")]}, 0]}),
                json!({"reduce": [var("coll"), {"+": [var("accumulator"), var("current.n")]}, {"if": [var("deep"), 100, 0]}]}),
                json!({"reduce": [[1, 2, 3], {"+": [var("current"), 1]}, var("deep")]}),
                json!({"map": [var("coll"), var("n")]}),
                json!({"map": [var("coll"), 1]}),
                json!({"filter": [var("coll"), {">": [var("n"), 1]}]}),
                json!({"map": [{"filter": [var("coll"), var("deep")]}, var("n")]}),
                json!({"all": [var("coll"), var("deep")]}),
                json!({"some": [var("coll"), {"===": [var("n"), 3]}]}),
            ] {
                deep_check(ctx, "c13.model", "deep-elements", d, &rule, &data);
            }
            ctx.cell("far-ladder");
        }
    });
    for n in slice(ctx, COUNTS) {
        let coll: Vec<Value> = (0..n).map(|i| json!(i % 10)).collect();
        let data = json!({ "c": coll });
        for rule in [json!({"reduce": [var("c"), {"+": [var("accumulator"), var("current")]}, 0]}), json!({"map": [{"filter": [var("c"), {"===": [var(""), 3]}]}, {"+": [var(""), 1]}]}), json!({"reduce": [{"map": [var("c"), 1]}, {"+": [var("accumulator"), var("current")]}, 0]})] {
            let obs = ctx.observe(&rule, &data);
            let (mo, tr) = crate::refsem::model(&rule, &data);
            ctx.judge("c13.model", &json!({"far-count case": crate::ctx::top_op(&rule), "elements": n}), &Value::Null, &obs, &mo, &tr);
        }
        ctx.cell("far-ladder");
    }
}

pub fn c15(ctx: &mut Ctx) {
    let depths = slice(ctx, &[127, 128, 129, 130, 200, 513, 1025, 3000]);
    big_stack(ctx, move |ctx| {
        for d in depths {
            for kind in [0usize, 1, 3] {
                for (x, y, z) in [(json!(1), json!(1.0), json!(2)), (json!(0), json!(-0.0), json!(1)), (json!("a"), json!("a"), json!("b")), (json!(1e2), json!(100), json!(101))] {
                    let a = nest(x, d, kind);
                    let b = nest(y, d, kind);
                    let c = nest(z, d, kind);
                    let data = json!({"a": a, "hay_yes": [c.clone(), b.clone()], "hay_no": [c]});
                    deep_check(ctx, "c15.in.model", "deep-member", d, &json!({"in": [var("a"), var("hay_yes")]}), &data);
                    deep_check(ctx, "c15.in.model", "deep-member", d, &json!({"in": [var("a"), var("hay_no")]}), &data);
                    deep_check(ctx, "c15.merge.model", "deep-merge", d, &json!({"in": [var("a"), {"merge": [var("hay_no"), var("hay_yes")]}]}), &data);
                }
            }
            ctx.cell("far-ladder");
        }
    });
}

pub fn c16(ctx: &mut Ctx) {
    strings_of_deep_arrays(ctx, "C16");
    // results around and beyond 2^24 bytes: pieces = at once, length = sum of the lengths
    if ctx.small || !(ctx.mine(5) || ctx.thorough()) {
        return;
    }
    let piece: String = "aé日😀".repeat(100_000); // 1 MB (10 bytes x 100 000)
    for pieces in [1usize, 15, 16, 17, 33, 40] {
        let args: Vec<Value> = (0..pieces).map(|_| var("p")).collect();
        let data = json!({ "p": piece });
        let obs = ctx.observe(&json!({ "cat": args }), &data);
        ctx.mon("c16.cat.pieces").observed += 1;
        ctx.mon("c16.cat.pieces").judged += 1;
        let ok = match &obs.out {
            Outcome::Ok(Value::String(s)) => s.len() == pieces * piece.len() && s.starts_with(&piece[..40]) && s.ends_with(&piece[piece.len() - 40..]),
            _ => false,
        };
        if !ok {
            let got = match &obs.out {
                Outcome::Ok(Value::String(s)) => json!({"ok_string_bytes": s.len()}),
                o => o.brief(),
            };
            ctx.violation("c16.cat.pieces", "far-size", &json!({"cat": format!("{} references to a 1 000 000-byte string", pieces)}), &Value::Null, json!({"string_bytes": pieces * piece.len()}), got, "cat of many large pieces is not their concatenation");
        }
        ctx.mark_nontrivial_key(&format!("c16:far-size:{}", pieces));
    }
    ctx.cell("far-ladder");
}
