use crate::ctx::Ctx;
pub fn c17(_c: &mut Ctx) {}
