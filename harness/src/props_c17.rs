//! C17: apply is a pure, stateless, thread-safe function of (rule, data).
//! H1 history monitor, H2 input immutability, H3 heap conservation and allocation determinism,
//! H4 concurrent calls on shared inputs (also the workload of the ThreadSanitizer and Miri lanes),
//! H5 effects (log lines = prediction; log returns its operand).

use crate::alloc;
use crate::corpus::*;
use crate::ctx::Ctx;
use crate::observe::{self, Obs, Outcome};
use crate::refsem::{self};
use crate::rng::Rng;
use serde_json::{json, Value};
use std::collections::BTreeMap;
use std::sync::atomic::{AtomicU64, Ordering};
use std::sync::{Arc, Barrier, Mutex};

fn outcome_key(o: &Outcome) -> String {
    match o {
        Outcome::Ok(v) => format!("ok:{}", v),
        Outcome::Err(e) => format!("err:{}", e),
        Outcome::Panic(p) => format!("panic:{}", p),
    }
}

/// Pool of (rule, data) pairs: same rules on different data, different rules on the same
/// data, erroring and logging calls.
fn build_pool(ctx: &mut Ctx, n_rules: usize, n_data: usize) -> (Vec<(Value, Value)>, usize) {
    let mut datas: Vec<Value> = vec![Value::Null, json!({"a": 1, "b": {"c": [1, 2, 3]}, "s": "héllo"}), json!([3, 1, 2]), json!({"a": 2, "b": {"c": []}, "s": ""}), json!("str")];
    while datas.len() < n_data {
        datas.push(rand_data(&mut ctx.rng, 3, 5, &mut 0));
    }
    let mut rules: Vec<Value> = vec![
        json!({"var": "a"}), json!({"+": [{"var": "a"}, 1]}), json!({"map": [{"var": "b.c"}, {"*": [{"var": ""}, 2]}]}), json!({"reduce": [{"var": "b.c"}, {"+": [{"var": "current"}, {"var": "accumulator"}]}, 0]}),
        json!({"log": {"var": "a"}}), json!({"log": "static"}), json!({"if": [{"var": "a"}, {"log": "then"}, {"log": "else"}]}), json!({"cat": [{"var": "s"}, "-", {"var": "a"}]}),
        json!({"/": [1]}), json!({"+": ["x"]}), json!({"substr": [{"var": "s"}, -2]}), json!({"missing": ["a", "z", "b.c"]}), json!({"all": [{"var": "b.c"}, {">": [{"var": ""}, 0]}]}),
        json!({"merge": [{"var": "b.c"}, {"var": ""}]}), json!({"==": [{"var": "a"}, "1"]}), json!({"in": [{"var": "a"}, {"var": "b.c"}]}), json!([{"var": "a"}]), json!({"filter": [{"var": ""}, {"%": [{"var": ""}, 2]}]}),
    ];
    // effect probes: a `log` in every position of every lazy / higher-order operator, deciding and
    // non-deciding, so that "each evaluated log prints exactly one line" is judged on every path
    rules.extend(vec![
        json!({"or": [0, {"!": [{"log": "or-last-falsy"}]}]}), json!({"or": [{"!": [{"log": "or-a"}]}, {"!": [{"log": "or-b"}]}]}), json!({"or": [{"log": "or-first"}, {"log": "or-never"}]}), json!({"or": [{"!": [{"log": "or-only"}]}]}),
        json!({"and": [{"log": "and-a"}, {"log": "and-b"}]}), json!({"and": [1, {"!": [{"log": "and-last-falsy"}]}]}), json!({"and": [{"!": [{"log": "and-first"}]}, {"log": "and-never"}]}), json!({"and": [{"log": "and-only"}]}),
        json!({"if": [{"!": [{"log": "if-c"}]}, {"log": "if-t"}, {"log": "if-e"}]}), json!({"if": [{"log": "if-c2"}, {"log": "if-t2"}, {"log": "if-e2"}]}), json!({"if": [{"!": [{"log": "c1"}]}, 1, {"!": [{"log": "c2"}]}, 2]}), json!({"?:": [{"var": "a"}, {"log": "tern-t"}, {"log": "tern-e"}]}), json!({"if": [{"log": "if-single"}]}),
        json!({"map": [[1, 2], {"log": {"var": ""}}]}), json!({"filter": [[0, 1, 2], {"log": {"var": ""}}]}), json!({"reduce": [[1, 2], {"log": {"+": [{"var": "current"}, {"var": "accumulator"}]}}, {"log": "init"}]}),
        json!({"all": [[1, 0, 2], {"log": {"var": ""}}]}), json!({"some": [[0, 1, 2], {"log": {"var": ""}}]}), json!({"none": [[0, 0], {"log": {"var": ""}}]}), json!({"all": [[{"log": "el-1"}, {"log": "el-2"}], true]}),
        json!({"var": [{"log": "a"}]}), json!({"var": ["zz", {"log": "dflt"}]}), json!({"cat": [{"log": "x"}, {"log": "y"}]}), json!({"+": [{"log": 1}, {"log": 2}]}), json!({"==": [{"log": 1}, {"log": 1}]}), json!({"<": [{"log": 1}, {"log": 2}, {"log": 3}]}),
        json!({"merge": [{"log": [1]}, {"log": 2}]}), json!({"in": [{"log": "a"}, {"log": "abc"}]}), json!({"substr": [{"log": "hello"}, {"log": 1}]}), json!({"max": [{"log": 1}, {"log": 2}]}), json!({"missing": [{"log": "a"}, "z"]}), json!({"!": [{"log": 0}]}),
        json!({"or": [{"and": [{"log": "n1"}, {"!": [{"log": "n2"}]}]}, {"if": [{"!": [{"log": "n3"}]}, 1, {"!": [{"log": "n4"}]}]}]}), json!({"log": {"log": "twice-nested"}}),
    ]);
    let mut g = RuleGen::new();
    g.probes = 8;
    g.poison = 4;
    rules.truncate(n_rules.max(4));
    datas.truncate(n_data.max(2));
    while rules.len() < n_rules {
        let d = datas[ctx.rng.below(datas.len())].clone();
        rules.push(g.rule(&mut ctx.rng, &d, 3, 3));
    }
    let mut pool = Vec::new();
    // hot coercion pairs (the first 16 of the pool are hammered by every thread): long numeric
    // strings that equal / almost equal a number, so that any shared scratch state in the
    // string-to-number path (a memo, a reused buffer) mixes up different strings
    if !small_pool(n_rules) {
        for k in 0..12u64 {
            let n = 1_000_000_007u64 + k * 252;
            let s_eq = n.to_string();
            let s_ne = format!("{}x", n);
            let s_pad = format!(" {}.0 ", n);
            pool.push((json!({"==": [{"var": "s"}, n]}), json!({ "s": s_eq })));
            match k % 3 {
                0 => pool.push((json!({"==": [{"var": "s"}, n]}), json!({ "s": s_ne }))),
                1 => pool.push((json!({"<=": [{"var": "s"}, n]}), json!({ "s": s_pad }))),
                _ => pool.push((json!({"-": [{"var": "s"}, 7]}), json!({ "s": s_eq }))),
            }
        }
    }
    for r in rules.iter() {
        for d in datas.iter() {
            pool.push((r.clone(), d.clone()));
        }
    }
    let tail_start = pool.len();
    if !small_pool(n_rules) {
        // deeply nested rules (any process-wide bookkeeping of "depth" shows when many threads are
        // deep inside an evaluation at the same time) ...
        for (op, leaf, depth) in [("!", json!({"var": "a"}), 120usize), ("if", json!({"var": "a"}), 110), ("and", json!({"var": "s"}), 100), ("+", json!({"var": "a"}), 120), ("cat", json!({"var": "s"}), 90), ("or", json!({"var": "a"}), 126), ("merge", json!({"var": "a"}), 60)] {
            let mut r = leaf;
            for _ in 0..depth {
                r = json!({ op: [r] });
            }
            pool.push((r.clone(), json!({"a": 1, "s": "x"})));
            // ... nested in map / filter / all (lazy operators evaluating lazy operators)
            let mut l = json!({"var": ""});
            for k in 0..40 {
                l = match k % 3 { 0 => json!({"map": [[l], {"var": ""}]}), 1 => json!({"filter": [[l], true]}), _ => json!({"if": [true, l, 0]}) };
            }
            pool.push((l, json!([1, 2])));
            let _ = r;
        }
        // ... and operands large enough for any size-triggered scratch buffer / cache
        let big: String = std::iter::repeat("aé日😀").take(1500).collect();
        let big_arr: Vec<Value> = (0..3000).map(|i| json!(i)).collect();
        let bd = json!({"s": big, "arr": big_arr, "k": "s"});
        for r in [json!({"var": "s.4321"}), json!({"var": ["s.-17"]}), json!({"substr": [{"var": "s"}, 100, 50]}), json!({"in": ["日😀a", {"var": "s"}]}), json!({"all": [{"var": "s"}, {"!=": [{"var": ""}, "x"]}]}),
                  json!({"cat": [{"var": "s"}, {"var": "s"}]}), json!({"var": "arr.2999"}), json!({"reduce": [{"var": "arr"}, {"+": [{"var": "current"}, {"var": "accumulator"}]}, 0]}), json!({"map": [{"var": "arr"}, {"*": [{"var": ""}, 2]}]}),
                  json!({"==": [{"var": "s"}, {"var": "s"}]}), json!({"<": [{"var": "s"}, "b"]}), json!({"missing": ["s.6000", "arr.3000", "arr.10"]}), json!({"merge": [{"var": "arr"}, {"var": "arr"}]}), json!({"max": {"var": "arr"}}),
                  json!({"in": [2999.0, {"var": "arr"}]}), json!({"some": [{"var": "arr"}, {"===": [{"var": ""}, 2999]}]}), json!({"var": [{"cat": [{"var": "k"}, ".", 5999]}]})] {
            pool.push((r, bd.clone()));
        }
    }
    (pool, tail_start)
}

fn small_pool(n_rules: usize) -> bool {
    n_rules <= 8
}

struct Isolated {
    key: String,
    logs: Vec<String>,
    allocs: u64,
}

pub fn c17(ctx: &mut Ctx) {
    let small = ctx.small; // Miri lane
    let (nr, nd) = if small { (8, 2) } else if ctx.thorough() { (400, 12) } else { (120, 8) };
    let (pool, tail_start) = build_pool(ctx, nr, nd);
    // ---- isolated results: first call of each pair in this process -----------------------
    // (a sample of them is additionally computed in a fresh process by the orchestrator)
    // Warm-up: every operator once on a tiny valid call, once with a wrong operand count, once
    // with operands of the wrong kind. An implementation may build an *immutable* table the first
    // time something is used (an operator map behind a OnceLock, a lazily compiled pattern); that
    // is one-time initialisation, not state carried from one call to the next, and it must not be
    // reported by the heap monitors below. What they report is heap that appears or varies with
    // the *inputs* of earlier calls (caches, memos, scratch buffers sized by an operand).
    warm_up();
    let mut iso: Vec<Isolated> = Vec::with_capacity(pool.len());
    for (r, d) in pool.iter() {
        // the measured call comes first: it is the pair's first evaluation in this process
        let (first_allocs, first_live) = measure_allocs(r, d);
        let obs = ctx.observe(r, d);
        // H5: the log trace and value agree with the model's prediction
        let (mo, tr) = refsem::model(r, d);
        ctx.judge("c17.effects", r, d, &obs, &mo, &tr);
        // heap conservation from the very first occurrence of a pair: a buffer that is allocated on
        // first use and then kept (and reused) is invisible to every later measurement
        let (allocs, live) = measure_allocs(r, d);
        if alloc::enabled() && !matches!(obs.out, Outcome::Panic(_)) {
            ctx.mon("c17.heap-conservation").observed += 1;
            ctx.mon("c17.heap-conservation").judged += 1;
            if first_live != 0 || live != 0 {
                ctx.violation_x("c17.heap-conservation", &format!("retained-heap-first-use:{}", crate::ctx::top_op(r)), r, d, json!({"net_live_bytes": 0}), json!({"net_live_bytes_first_measured_call": first_live, "second": live}), "heap memory stayed allocated after the call returned and its result was dropped (state kept between calls)", json!({"phase": "isolated"}));
            }
            ctx.mon("c17.alloc-determinism").observed += 1;
            ctx.mon("c17.alloc-determinism").judged += 1;
            if first_allocs != allocs {
                ctx.violation_x("c17.alloc-determinism", &format!("alloc-count-varies-first-use:{}", crate::ctx::top_op(r)), r, d, json!({"allocations_first_measured_call": first_allocs}), json!({"allocations_next_call": allocs}), "the same call allocates a different number of times on its second occurrence (hidden state: cache / memo / warm-up)", json!({"phase": "isolated"}));
            }
        }
        iso.push(Isolated { key: outcome_key(&obs.out), logs: obs.logs, allocs });
    }
    // log returns its operand unchanged
    for v in v_all().into_iter().take(if small { 6 } else { 1000 }) {
        let data = json!({ "v": v });
        let obs = ctx.observe(&json!({"log": [{"var": "v"}]}), &data);
        ctx.mon("c17.log-identity").observed += 1;
        ctx.mon("c17.log-identity").judged += 1;
        let ok = matches!(&obs.out, Outcome::Ok(r) if r.to_string() == v.to_string()) && (!observe::capture_active() || obs.logs == vec![v.to_string()]);
        if !ok {
            ctx.violation("c17.log-identity", "log-identity", &json!({"log": [{"var": "v"}]}), &data, json!({"ok": v, "one line": v.to_string()}), json!({"out": obs.out.brief(), "lines": obs.logs}), "log did not return its operand unchanged / did not print exactly one line");
        }
    }

    // ---- H5': log lines that could not be written must not change what later logs do ------------
    if !small {
        unwritable_stdout_class(ctx, "c17.effects");
    }

    // ---- H1': adjacent calls on operands that collide under a weak key ---------------------
    // State keyed on something coarse (a 32-bit hash of a string, its length, its ends) changes a
    // result only when two *different* operands with the same key follow each other on one thread.
    // Random histories meet such a pair with probability 2^-32; here the pairs are computed.
    if !small {
        weak_key_histories(ctx, "c17.weak-key-history", &[]);
        semantic_key_histories(ctx, "c17.semantic-key-history", &[]);
    }

    // ---- H1 + H2 + H3: randomised histories ----------------------------------------------
    let n = if small { 40 } else { ctx.budget(30_000, 2_000_000) };
    let mut prev_rule: Option<usize> = None;
    let per_data = nd.max(1);
    for step in 0..n {
        // bias: repeat the previous rule with other data / another rule on the same data
        let i = match (prev_rule, ctx.rng.below(4)) {
            (Some(p), 0) => (p / per_data) * per_data + ctx.rng.below(per_data),
            (Some(p), 1) => (ctx.rng.below(pool.len() / per_data)) * per_data + p % per_data,
            (Some(p), 2) if step % 7 == 0 => p,
            _ => ctx.rng.below(pool.len()),
        }
        .min(pool.len() - 1);
        let (r, d) = &pool[i];
        let check_immut = step % 4 == 0;
        let before = if check_immut { Some((r.to_string(), d.to_string())) } else { None };
        let obs = ctx.observe(r, d);
        ctx.mon("c17.history").observed += 1;
        ctx.mon("c17.history").judged += 1;
        if outcome_key(&obs.out) != iso[i].key || (observe::capture_active() && obs.logs != iso[i].logs) {
            ctx.violation_x("c17.history", &format!("history-dependent:{}", crate::ctx::top_op(r)), r, d, json!({"isolated": iso[i].key, "logs": iso[i].logs}), json!({"in_history": outcome_key(&obs.out), "logs": obs.logs}), "the result of a call depends on the calls made before it", json!({"step": step, "previous_pool_index": prev_rule}));
        }
        if let Some((rt, dt)) = before {
            ctx.mon("c17.immutability").observed += 1;
            ctx.mon("c17.immutability").judged += 1;
            if r.to_string() != rt || d.to_string() != dt {
                ctx.violation("c17.immutability", "input-mutated", r, d, json!({"rule": rt, "data": dt}), json!({"rule": r, "data": d}), "apply modified one of its inputs");
            }
        }
        if alloc::enabled() && step % 3 == 0 && !matches!(obs.out, Outcome::Panic(_)) {
            let (allocs, live_delta) = measure_allocs(r, d);
            ctx.mon("c17.heap-conservation").observed += 1;
            ctx.mon("c17.heap-conservation").judged += 1;
            if live_delta != 0 {
                ctx.violation_x("c17.heap-conservation", &format!("retained-heap:{}", crate::ctx::top_op(r)), r, d, json!({"net_live_bytes": 0}), json!({ "net_live_bytes": live_delta }), "heap memory stayed allocated after the call returned and its result was dropped (state kept between calls)", json!({"step": step}));
            }
            ctx.mon("c17.alloc-determinism").observed += 1;
            ctx.mon("c17.alloc-determinism").judged += 1;
            if allocs != iso[i].allocs {
                ctx.violation_x("c17.alloc-determinism", &format!("alloc-count-varies:{}", crate::ctx::top_op(r)), r, d, json!({"allocations_in_isolation": iso[i].allocs}), json!({ "allocations_now": allocs }), "the number of allocations of the same call differs from its first occurrence (hidden state: cache / memo / warm-up)", json!({"step": step}));
            }
        }
        if prev_rule.map(|p| p / per_data == i / per_data && p != i).unwrap_or(false) {
            ctx.mark_nontrivial_key(&format!("h:{}:{}", i, prev_rule.unwrap()));
            ctx.cell("history:same-rule-other-data");
        } else if prev_rule.map(|p| p % per_data == i % per_data && p != i).unwrap_or(false) {
            ctx.mark_nontrivial_key(&format!("h:{}:{}", i, prev_rule.unwrap()));
            ctx.cell("history:other-rule-same-data");
        } else if prev_rule == Some(i) {
            ctx.cell("history:exact-repeat");
        }
        prev_rule = Some(i);
    }

    // ---- H1'': the same calls on inputs rebuilt at recycled addresses ----------------------
    recycled_histories(ctx, &pool, &iso, small);

    // ---- H4: concurrent calls on shared inputs ---------------------------------------------
    let shared: Arc<Vec<(Value, Value)>> = Arc::new(pool);
    let iso_keys: Arc<Vec<String>> = Arc::new(iso.iter().map(|x| x.key.clone()).collect());
    let iso_logs: Vec<Vec<String>> = iso.iter().map(|x| x.logs.clone()).collect();
    let rounds = if small { 1 } else { ctx.budget(6, 40).max(1) };
    let calls_per_thread = if small { 12 } else { ctx.budget(300, 1500) as usize };
    let mut signatures: BTreeMap<u64, u64> = BTreeMap::new();
    let mut total_switches = 0u64;
    // after the mixed rounds: *hammer* rounds, in which every thread calls only a handful of the hot
    // pairs (2, 4, 8, 24 of them) many times - a window of a few nanoseconds between two halves of a
    // shared entry needs the same few operands converted by several threads at the same instant
    let hammer: Vec<usize> = if small { vec![] } else { vec![2, 4, 8, 24, 2, 4] };
    let normal_rounds = rounds;
    let rounds = normal_rounds + hammer.len() as u64;
    let base_calls = calls_per_thread;
    for round in 0..rounds {
        let hot_only: Option<usize> = if round >= normal_rounds { Some(hammer[(round - normal_rounds) as usize].min(shared.len())) } else { None };
        let calls_per_thread = if hot_only.is_some() { ctx.budget(4_000, 40_000) as usize } else { base_calls };
        let threads = if small { 3 } else if hot_only.is_some() { [16usize, 8][(round % 2) as usize] } else { [2usize, 4, 16][(round % 3) as usize] };
        if observe::capture_active() {
            let _ = observe::capture_take();
        }
        if observe::errcap_active() {
            let _ = observe::errcap_take();
        }
        let barrier = Arc::new(Barrier::new(threads));
        let seq = Arc::new(AtomicU64::new(0));
        let order: Arc<Mutex<Vec<(u64, u8)>>> = Arc::new(Mutex::new(Vec::new()));
        let mismatches: Arc<Mutex<Vec<(usize, String, usize)>>> = Arc::new(Mutex::new(Vec::new()));
        let called: Arc<Mutex<Vec<usize>>> = Arc::new(Mutex::new(Vec::new()));
        let mut hs = Vec::new();
        for t in 0..threads {
            let (shared, iso_keys, barrier, seq, order, mismatches, called) = (shared.clone(), iso_keys.clone(), barrier.clone(), seq.clone(), order.clone(), mismatches.clone(), called.clone());
            let mut rng = Rng::from_parts(ctx.seed ^ round.wrapping_mul(7919), "C17-thread", (ctx.shard << 8) | t as u64);
            let hot_base = match hot_only {
                Some(k) if k < 24 => 2 * ((round as usize * 5) % ((24 - k) / 2 + 1)),
                _ => 0,
            };
            hs.push(std::thread::spawn(move || {
                observe::install_panic_hook();
                let mut mine: Vec<(u64, u8)> = Vec::new();
                let mut idxs: Vec<usize> = Vec::new();
                barrier.wait();
                for _ in 0..calls_per_thread {
                    // few "hot" pairs so that threads collide on the same shared values
                    let i = match rng.below(10) {
                        _ if hot_only.is_some() => hot_base + rng.below(hot_only.unwrap()),
                        0..=3 => rng.below(24.min(shared.len())),
                        4..=6 if tail_start < shared.len() => tail_start + rng.below(shared.len() - tail_start),
                        _ => rng.below(shared.len()),
                    };
                    let (r, d) = &shared[i];
                    let out = observe::call(r, d);
                    let s = seq.fetch_add(1, Ordering::SeqCst);
                    mine.push((s, t as u8));
                    idxs.push(i);
                    if outcome_key(&out) != iso_keys[i] {
                        mismatches.lock().unwrap().push((i, outcome_key(&out), t));
                    }
                    match rng.below(8) {
                        0 => std::thread::yield_now(),
                        1 => {
                            for _ in 0..rng.below(200) {
                                std::hint::spin_loop();
                            }
                        }
                        _ => {}
                    }
                }
                order.lock().unwrap().extend(mine);
                called.lock().unwrap().extend(idxs);
            }));
        }
        for h in hs {
            let _ = h.join();
        }
        ctx.evaluations += (threads * calls_per_thread) as u64;
        ctx.mon("c17.concurrent").observed += (threads * calls_per_thread) as u64;
        ctx.mon("c17.concurrent").judged += (threads * calls_per_thread) as u64;
        for (i, got, t) in mismatches.lock().unwrap().iter() {
            let (r, d) = &shared[*i];
            ctx.violation_x("c17.concurrent", &format!("concurrent-result-differs:{}", crate::ctx::top_op(r)), r, d, json!({"isolated": iso_keys[*i]}), json!({ "concurrent": got }), "a concurrent call on shared inputs returned a different result than in isolation", json!({"thread": t, "threads": threads, "round": round}));
        }
        // the multiset of lines printed by all threads = the sum of the isolated traces of the calls made
        if observe::capture_active() {
            let lines = observe::capture_take();
            let mut want: BTreeMap<String, i64> = BTreeMap::new();
            for i in called.lock().unwrap().iter() {
                for l in iso_logs[*i].iter() {
                    *want.entry(l.clone()).or_insert(0) += 1;
                }
            }
            let mut got: BTreeMap<String, i64> = BTreeMap::new();
            for l in lines.iter() {
                *got.entry(l.clone()).or_insert(0) += 1;
            }
            ctx.mon("c17.concurrent-effects").observed += 1;
            ctx.mon("c17.concurrent-effects").judged += 1;
            ctx.log_lines_matched += lines.len() as u64;
            if want != got {
                let diff: Vec<String> = want.iter().filter(|(k, n)| got.get(*k) != Some(n)).map(|(k, n)| format!("{} want {} got {:?}", k, n, got.get(k))).take(5).collect();
                ctx.violation_x("c17.concurrent-effects", "log-multiset", &json!("concurrent round"), &Value::Null, json!("every evaluated log prints exactly one whole line"), json!(diff), "lines printed during a concurrent round are not the union of the isolated traces (lost, duplicated or torn lines)", json!({"round": round, "threads": threads}));
            }
        }
        if observe::errcap_active() {
            let e = observe::errcap_take();
            ctx.mon("c17.stderr-silent").observed += 1;
            ctx.mon("c17.stderr-silent").judged += 1;
            if !e.is_empty() {
                let got: String = e.chars().take(300).collect();
                ctx.violation_x("c17.stderr-silent", "stderr-write:concurrent-round", &json!("concurrent round"), &Value::Null, json!("nothing written to fd 2"), json!({ "stderr": got }), "evaluations wrote to standard error during a concurrent round", json!({"round": round, "threads": threads}));
            }
        }
        // completion-order signature (which interleaving did we see?)
        let mut o = order.lock().unwrap().clone();
        o.sort();
        let mut h: u64 = 0xcbf29ce484222325;
        let mut switches = 0u64;
        for w in 0..o.len() {
            h = (h ^ o[w].1 as u64).wrapping_mul(0x100000001b3);
            if w > 0 && o[w].1 != o[w - 1].1 {
                switches += 1;
            }
        }
        *signatures.entry(h).or_insert(0) += 1;
        total_switches += switches;
        ctx.mark_nontrivial_key(&format!("sched:{:x}", h));
        ctx.cell(&format!("concurrent:threads={}", threads));
    }
    // ---- H4'': many threads at once, and many short-lived threads one after another ----------
    if !small {
        many_threads(ctx, &shared, &iso_keys, tail_start);
    }
    ctx.extra.insert("distinct_completion_orders".into(), json!(signatures.len()));
    ctx.extra.insert("thread_switches_in_completion_order".into(), json!(total_switches));
    ctx.extra.insert("concurrent_rounds".into(), json!(rounds));
    ctx.extra.insert("pool_pairs".into(), json!(shared.len()));
    ctx.sample(json!({"history_steps": n, "pool_pairs": shared.len(), "concurrent_rounds": rounds, "distinct_completion_orders": signatures.len()}));
    ctx.sample(json!({"pair": [shared[4].0, shared[4].1], "isolated": iso[4].key, "isolated_log_lines": iso[4].logs}));
    let _: Option<Obs> = None;
}

/// One small call per operator and failure kind (see the comment at the call site).
pub fn warm_up() {
    let d = json!({"a": 1, "b": [1, 2], "s": "xy"});
    let _ = observe::call(&json!({"log": "warm-up"}), &Value::Null);
    if std::env::var("JL_NARROW_WARMUP").is_ok() {
        // experiment switch (never set by the checks): the warm-up as it was before the third session
        return;
    }
    for op in all_ops() {
        let valid: Value = match op {
            "var" => json!({"var": "b.0"}),
            "missing" => json!({"missing": ["a", "z"]}),
            "missing_some" => json!({"missing_some": [1, ["a", "z"]]}),
            "if" | "?:" => json!({op: [{"var": "a"}, 1, 2]}),
            "and" | "or" => json!({op: [{"var": "a"}, 0]}),
            "map" | "filter" | "all" | "some" | "none" => json!({op: [{"var": "b"}, {"var": ""}]}),
            "reduce" => json!({"reduce": [{"var": "b"}, {"+": [{"var": "current"}, {"var": "accumulator"}]}, 0]}),
            "substr" => json!({"substr": [{"var": "s"}, 1, 1]}),
            "in" => json!({"in": [{"var": "a"}, {"var": "b"}]}),
            "!" | "!!" | "log" => json!({op: [{"var": "a"}]}),
            "merge" | "cat" | "+" | "*" | "max" | "min" => json!({op: [{"var": "a"}, "2", [3]]}),
            _ => json!({op: [{"var": "a"}, "2"]}),
        };
        let _ = observe::call(&valid, &d);
        let _ = observe::call(&json!({op: [1, 2, 3, 4, 5]}), &d);
        let _ = observe::call(&json!({ op: [] }), &d);
        let _ = observe::call(&json!({op: [{"a": 1}, {"var": [[]]}]}), &d);
        let _ = observe::call(&json!({op: ["x", {"/": [1]}]}), &d);
    }
    // values of every kind through the coercions (string forms, numbers from strings)
    let _ = observe::call(&json!({"cat": [1.5, null, true, [1, [2]], {"a": 1}, "é"]}), &d);
    let _ = observe::call(&json!({"==": [" 0x10 ", 16]}), &d);
    let _ = observe::call(&json!({"<": ["a", "b"]}), &d);
}

/// H1'': a caller that builds its rule and data afresh for every call (parsed from text into the
/// same local variables, or into boxes the allocator hands out again) presents *different*
/// documents at the *same* addresses. Anything remembered per address - of the rule, of a node
/// inside it, of the data - is consistent on a pool that stays alive (every pair has its own
/// address there) and wrong here. Each result and trace must equal the isolated one.
fn recycled_histories(ctx: &mut Ctx, pool: &[(Value, Value)], iso: &[Isolated], small: bool) {
    let n = if small { 24 } else { ctx.budget(20_000, 600_000) };
    let texts: Vec<(String, String)> = pool.iter().map(|(r, d)| (r.to_string(), d.to_string())).collect();
    // pairs whose texts have the same length are preferred as neighbours: the allocator then
    // returns the very blocks it has just been given back
    let mut by_len: BTreeMap<(usize, usize), Vec<usize>> = BTreeMap::new();
    for (i, (rt, dt)) in texts.iter().enumerate() {
        by_len.entry((rt.len() / 16, dt.len() / 16)).or_default().push(i);
    }
    let groups: Vec<&Vec<usize>> = by_len.values().filter(|g| g.len() > 1).collect();
    let mut prev = 0usize;
    let mut same_slot = 0u64;
    let mut last_addr = (0usize, 0usize);
    for step in 0..n {
        let i = match ctx.rng.below(4) {
            0 if !groups.is_empty() => {
                let g = groups[ctx.rng.below(groups.len())];
                g[ctx.rng.below(g.len())]
            }
            1 => (prev + 1) % pool.len(),
            _ => ctx.rng.below(pool.len()),
        };
        let check = |ctx: &mut Ctx, route: &str, r: &Value, d: &Value, obs: &Obs| {
            ctx.mon("c17.recycled-address").observed += 1;
            ctx.mon("c17.recycled-address").judged += 1;
            if outcome_key(&obs.out) != iso[i].key || (observe::capture_active() && obs.logs != iso[i].logs) {
                ctx.violation_x("c17.recycled-address", &format!("address-dependent:{}:{}", route, crate::ctx::top_op(r)), r, d, json!({"isolated": iso[i].key, "logs": iso[i].logs}), json!({"rebuilt": outcome_key(&obs.out), "logs": obs.logs}), "the same rule and data, rebuilt where a previous call's inputs had lived, gave a different result (something is remembered per address)", json!({"step": step, "previous_pool_index": prev, "route": route}));
            }
        };
        match step % 3 {
            0 => {
                // parsed from text into the same two locals every time round the loop
                // (the deepest pool rules are built in memory, deeper than the parser goes: those are cloned)
                let r: Value = serde_json::from_str(&texts[i].0).unwrap_or_else(|_| pool[i].0.clone());
                let d: Value = serde_json::from_str(&texts[i].1).unwrap_or_else(|_| pool[i].1.clone());
                let a = (&r as *const Value as usize, &d as *const Value as usize);
                if a == last_addr {
                    same_slot += 1;
                }
                last_addr = a;
                let obs = ctx.observe(&r, &d);
                check(ctx, "locals", &r, &d, &obs);
            }
            1 => {
                // boxed clones: dropped at the end of the step, the blocks come back for the next one
                let r = Box::new(pool[i].0.clone());
                let d = Box::new(pool[i].1.clone());
                let obs = ctx.observe(&r, &d);
                check(ctx, "boxed", &r, &d, &obs);
            }
            _ => {
                // overwritten in place: one long-lived pair of slots that holds a different document each time
                thread_local! { static SLOT: std::cell::RefCell<(Value, Value)> = std::cell::RefCell::new((Value::Null, Value::Null)); }
                let obs = SLOT.with(|sl| {
                    let mut sl = sl.borrow_mut();
                    sl.0 = pool[i].0.clone();
                    sl.1 = pool[i].1.clone();
                    observe::observe(&sl.0, &sl.1)
                });
                ctx.evaluations += 1;
                check(ctx, "overwritten", &pool[i].0, &pool[i].1, &obs);
            }
        }
        if prev != i {
            ctx.cell("recycled:other-document-same-address");
        }
        prev = i;
    }
    ctx.extra.insert("recycled_same_stack_slot_steps".into(), json!(same_slot));
}

/// H4'': state kept per thread in a table of fixed size (indexed by a thread number modulo the
/// size), handed from a finished thread to the next one, or torn down wrongly when a thread ends
/// shows only with more threads than cores, or with many threads that come and go. (a) 64 and
/// 192 threads at once; (b) 1 500 threads one after another, three calls each, the second of them
/// failing; every result must equal the isolated one, and a thread's own net heap must be zero
/// when it ends.
fn many_threads(ctx: &mut Ctx, shared: &Arc<Vec<(Value, Value)>>, iso_keys: &Arc<Vec<String>>, tail_start: usize) {
    let _ = tail_start;
    let mut waves: Vec<(usize, usize)> = vec![(64, 40), (192, 12)];
    if ctx.thorough() {
        waves.push((512, 12));
    }
    for (threads, calls) in waves {
        let barrier = Arc::new(Barrier::new(threads));
        let mism: Arc<Mutex<Vec<(usize, String, usize)>>> = Arc::new(Mutex::new(Vec::new()));
        let mut hs = Vec::new();
        for t in 0..threads {
            let (shared, iso_keys, barrier, mism) = (shared.clone(), iso_keys.clone(), barrier.clone(), mism.clone());
            let mut rng = Rng::from_parts(ctx.seed ^ 0x6d74, "C17-many", (ctx.shard << 12) | t as u64);
            let b = std::thread::Builder::new().stack_size(2 << 20);
            match b.spawn(move || {
                observe::install_panic_hook();
                barrier.wait();
                for _ in 0..calls {
                    let i = if rng.below(2) == 0 { rng.below(24.min(shared.len())) } else { rng.below(shared.len()) };
                    let (r, d) = &shared[i];
                    // the deep rules of the pool need more than a 2 MiB stack in some profiles: not here
                    if refsem::nested_deeper_than(r, 40) {
                        continue;
                    }
                    let out = observe::call(r, d);
                    if outcome_key(&out) != iso_keys[i] {
                        mism.lock().unwrap().push((i, outcome_key(&out), t));
                    }
                    if rng.below(4) == 0 {
                        std::thread::yield_now();
                    }
                }
            }) {
                Ok(h) => hs.push(h),
                Err(_) => {
                    // the machine refused another thread: the others must not wait for it for ever
                    ctx.cell("many-threads:spawn-refused");
                    break;
                }
            }
        }
        if hs.len() < threads {
            // release the barrier by not using it: the spawned threads are blocked on it - abandon the wave
            // (cannot happen with 62 GB and the default limits; kept so that a refusal is not a hang)
            std::process::exit(2);
        }
        for h in hs {
            let _ = h.join();
        }
        let made = (threads * calls) as u64;
        ctx.evaluations += made;
        ctx.mon("c17.many-threads").observed += made;
        ctx.mon("c17.many-threads").judged += made;
        for (i, got, t) in mism.lock().unwrap().iter() {
            let (r, d) = &shared[*i];
            ctx.violation_x("c17.many-threads", &format!("concurrent-result-differs:{}", crate::ctx::top_op(r)), r, d, json!({"isolated": iso_keys[*i]}), json!({ "concurrent": got }), "a call made while many threads were evaluating returned a different result than in isolation", json!({"thread": t, "threads": threads}));
        }
        ctx.cell(&format!("many-threads:{}", threads));
    }
    // (b) short-lived threads, one after another
    let n = ctx.budget(1_500, 20_000) as usize;
    let failing: Vec<usize> = (0..shared.len()).filter(|i| iso_keys[*i].starts_with("err:")).take(64).collect();
    let mut retained: Vec<(usize, i64)> = Vec::new();
    for k in 0..n {
        let i = ctx.rng.below(shared.len());
        let j = if failing.is_empty() { i } else { failing[ctx.rng.below(failing.len())] };
        if refsem::nested_deeper_than(&shared[i].0, 40) {
            continue;
        }
        let (sh, ik) = (shared.clone(), iso_keys.clone());
        let h = std::thread::Builder::new().stack_size(2 << 20).spawn(move || {
            observe::install_panic_hook();
            // one-time initialisation per thread (an immutable thread-local table) is not state between calls
            warm_up();
            let (_, l0) = alloc::snapshot();
            let mut bad: Vec<(usize, String)> = Vec::new();
            for idx in [i, j, i] {
                let out = observe::call(&sh[idx].0, &sh[idx].1);
                let key = outcome_key(&out);
                drop(out);
                if key != ik[idx] {
                    bad.push((idx, key));
                }
            }
            let (_, l1) = alloc::snapshot();
            let bad_bytes: i64 = bad.iter().map(|b| b.1.capacity() as i64).sum::<i64>() + if bad.capacity() > 0 { (bad.capacity() * std::mem::size_of::<(usize, String)>()) as i64 } else { 0 };
            (bad, l1 - l0 - bad_bytes)
        });
        let (bad, live) = match h {
            Ok(h) => match h.join() {
                Ok(x) => x,
                Err(_) => continue,
            },
            Err(_) => continue,
        };
        ctx.evaluations += 3;
        ctx.mon("c17.many-threads").observed += 3;
        ctx.mon("c17.many-threads").judged += 3;
        for (idx, got) in bad {
            let (r, d) = &shared[idx];
            ctx.violation_x("c17.many-threads", &format!("short-lived-thread-result-differs:{}", crate::ctx::top_op(r)), r, d, json!({"isolated": iso_keys[idx]}), json!({ "in_new_thread": got }), "a call made on a newly started thread (after many threads have come and gone) returned a different result than in isolation", json!({"thread_number": k}));
        }
        if alloc::enabled() && live != 0 {
            retained.push((i, live));
        }
    }
    if alloc::enabled() {
        ctx.mon("c17.heap-conservation").observed += n as u64;
        ctx.mon("c17.heap-conservation").judged += n as u64;
        if let Some((i, live)) = retained.first() {
            let (r, d) = &shared[*i];
            ctx.violation_x("c17.heap-conservation", &format!("retained-heap-in-thread:{}", crate::ctx::top_op(r)), r, d, json!({"net_live_bytes": 0}), json!({"net_live_bytes": live, "threads_affected": retained.len()}), "a thread that made three calls and dropped their results ended with heap memory it had not had before (state kept between calls, per thread)", json!({"threads": n}));
        }
    }
    ctx.cell("many-threads:short-lived");
    ctx.extra.insert("short_lived_threads".into(), json!(n));
}

/// (allocation count, net live bytes) of one call whose result is dropped inside the measured region.
fn measure_allocs(r: &Value, d: &Value) -> (u64, i64) {
    if !alloc::enabled() {
        return (0, 0);
    }
    let (a0, l0) = alloc::snapshot();
    {
        let res = jsonlogic_rs_apply_catching(r, d);
        drop(res);
    }
    let (a1, l1) = alloc::snapshot();
    (a1 - a0, l1 - l0)
}

fn jsonlogic_rs_apply_catching(r: &Value, d: &Value) -> Option<Result<Value, String>> {
    // errors are mapped to () so that the comparison is about the library's allocations only
    match std::panic::catch_unwind(std::panic::AssertUnwindSafe(|| jsonlogic_rs::apply(r, d))) {
        Ok(Ok(v)) => Some(Ok(v)),
        Ok(Err(_e)) => Some(Err(String::new())),
        Err(_) => None,
    }
}

type Hash32 = (&'static str, fn(&[u8]) -> u32);

fn weak_hashes() -> Vec<Hash32> {
    fn fnv1a(b: &[u8]) -> u32 { b.iter().fold(0x811c_9dc5u32, |h, c| (h ^ *c as u32).wrapping_mul(0x0100_0193)) }
    fn fnv1(b: &[u8]) -> u32 { b.iter().fold(0x811c_9dc5u32, |h, c| h.wrapping_mul(0x0100_0193) ^ *c as u32) }
    fn djb2(b: &[u8]) -> u32 { b.iter().fold(5381u32, |h, c| h.wrapping_mul(33).wrapping_add(*c as u32)) }
    fn djb2x(b: &[u8]) -> u32 { b.iter().fold(5381u32, |h, c| h.wrapping_mul(33) ^ *c as u32) }
    fn sdbm(b: &[u8]) -> u32 { b.iter().fold(0u32, |h, c| (*c as u32).wrapping_add(h << 6).wrapping_add(h << 16).wrapping_sub(h)) }
    fn java31(b: &[u8]) -> u32 { b.iter().fold(0u32, |h, c| h.wrapping_mul(31).wrapping_add(*c as u32)) }
    fn adler(b: &[u8]) -> u32 {
        let (mut a, mut s) = (1u32, 0u32);
        for c in b {
            a = (a + *c as u32) % 65521;
            s = (s + a) % 65521;
        }
        (s << 16) | a
    }
    fn crc32(b: &[u8]) -> u32 {
        let mut crc = 0xFFFF_FFFFu32;
        for c in b {
            crc ^= *c as u32;
            for _ in 0..8 {
                crc = if crc & 1 == 1 { (crc >> 1) ^ 0xEDB8_8320 } else { crc >> 1 };
            }
        }
        !crc
    }
    fn murmur_fin(b: &[u8]) -> u32 {
        // multiply-rotate word hash (MurmurHash3 x86_32, seed 0)
        let (c1, c2) = (0xcc9e_2d51u32, 0x1b87_3593u32);
        let mut h = 0u32;
        let mut chunks = b.chunks_exact(4);
        for ch in &mut chunks {
            let mut k = u32::from_le_bytes([ch[0], ch[1], ch[2], ch[3]]);
            k = k.wrapping_mul(c1).rotate_left(15).wrapping_mul(c2);
            h = (h ^ k).rotate_left(13).wrapping_mul(5).wrapping_add(0xe654_6b64);
        }
        let rem = chunks.remainder();
        let mut k = 0u32;
        for (i, c) in rem.iter().enumerate() {
            k |= (*c as u32) << (8 * i);
        }
        if !rem.is_empty() {
            h ^= k.wrapping_mul(c1).rotate_left(15).wrapping_mul(c2);
        }
        h ^= b.len() as u32;
        h ^= h >> 16;
        h = h.wrapping_mul(0x85eb_ca6b);
        h ^= h >> 13;
        h = h.wrapping_mul(0xc2b2_ae35);
        h ^ (h >> 16)
    }
    fn sum(b: &[u8]) -> u32 { b.iter().fold(0u32, |h, c| h.wrapping_add(*c as u32)) }
    fn xor(b: &[u8]) -> u32 { b.iter().fold(0u32, |h, c| h ^ *c as u32) }
    fn ends(b: &[u8]) -> u32 {
        // the first and last four bytes only
        let n = b.len();
        let mut h = 0u32;
        for c in b[..4.min(n)].iter().chain(b[n.saturating_sub(4)..].iter()) {
            h = h.wrapping_mul(257).wrapping_add(*c as u32);
        }
        h
    }
    // the multiply-rotate hash of rustc / FxHasher, byte by byte and word by word, either half of the 64 bits
    fn fx64(b: &[u8]) -> u64 { b.iter().fold(0u64, |h, c| (h.rotate_left(5) ^ *c as u64).wrapping_mul(0x517c_c1b7_2722_0a95)) }
    fn fx_hi(b: &[u8]) -> u32 { (fx64(b) >> 32) as u32 }
    fn fx_lo(b: &[u8]) -> u32 { fx64(b) as u32 }
    fn fx32(b: &[u8]) -> u32 { b.iter().fold(0u32, |h, c| (h.rotate_left(5) ^ *c as u32).wrapping_mul(0x9e37_79b9)) }
    fn fx_words(b: &[u8]) -> u64 {
        let mut h = 0u64;
        let mut ch = b.chunks_exact(8);
        for w in &mut ch {
            h = (h.rotate_left(5) ^ u64::from_le_bytes([w[0], w[1], w[2], w[3], w[4], w[5], w[6], w[7]])).wrapping_mul(0x517c_c1b7_2722_0a95);
        }
        for c in ch.remainder() {
            h = (h.rotate_left(5) ^ *c as u64).wrapping_mul(0x517c_c1b7_2722_0a95);
        }
        h
    }
    fn fxw_hi(b: &[u8]) -> u32 { (fx_words(b) >> 32) as u32 }
    fn fxw_lo(b: &[u8]) -> u32 { fx_words(b) as u32 }
    // std's DefaultHasher::new() is SipHash-1-3 with an all-zero key: deterministic, and 32 bits of it collide like any 32 bits
    fn sip(b: &[u8], as_str: bool) -> u64 {
        use std::hash::Hasher;
        let mut h = std::collections::hash_map::DefaultHasher::new();
        h.write(b);
        if as_str {
            h.write_u8(0xff);
        }
        h.finish()
    }
    fn sip_lo(b: &[u8]) -> u32 { sip(b, false) as u32 }
    fn sip_hi(b: &[u8]) -> u32 { (sip(b, false) >> 32) as u32 }
    fn sip_str_lo(b: &[u8]) -> u32 { sip(b, true) as u32 }
    fn sip_str_hi(b: &[u8]) -> u32 { (sip(b, true) >> 32) as u32 }
    fn fnv64(b: &[u8]) -> u64 { b.iter().fold(0xcbf2_9ce4_8422_2325u64, |h, c| (h ^ *c as u64).wrapping_mul(0x0000_0100_0000_01b3)) }
    fn fnv64_lo(b: &[u8]) -> u32 { fnv64(b) as u32 }
    fn fnv64_fold(b: &[u8]) -> u32 { let h = fnv64(b); (h as u32) ^ ((h >> 32) as u32) }
    let mut v: Vec<Hash32> = vec![("fx-64-high", fx_hi), ("fx-64-low", fx_lo), ("fx-32", fx32), ("fx-words-high", fxw_hi), ("fx-words-low", fxw_lo), ("siphash13-zero-key-low", sip_lo), ("siphash13-zero-key-high", sip_hi),
                                  ("siphash13-zero-key-str-low", sip_str_lo), ("siphash13-zero-key-str-high", sip_str_hi), ("fnv1a-64-low", fnv64_lo), ("fnv1a-64-folded", fnv64_fold)];
    let older: Vec<Hash32> = vec![("fnv1a-32", fnv1a), ("fnv1-32", fnv1), ("djb2", djb2), ("djb2-xor", djb2x), ("sdbm", sdbm), ("x31", java31), ("adler-32", adler), ("crc-32", crc32), ("murmur3-32", murmur_fin), ("byte-sum", sum), ("byte-xor", xor), ("first-and-last-4-bytes", ends)];
    v.extend(older);
    v
}

/// Pairs of different decimal literals of equal length that collide under each weak key.
fn colliding_literals(rng: &mut Rng, len: usize, per_hash: usize) -> Vec<(&'static str, String, String)> {
    let hashes = weak_hashes();
    let n = 220_000usize;
    let mut strs: Vec<String> = Vec::with_capacity(n);
    for _ in 0..n {
        let mut s = String::with_capacity(len);
        s.push((b'1' + rng.below(9) as u8) as char);
        for _ in 1..len {
            s.push((b'0' + rng.below(10) as u8) as char);
        }
        strs.push(s);
    }
    let mut out = Vec::new();
    for (name, h) in hashes.iter() {
        let mut seen: std::collections::HashMap<u32, usize> = std::collections::HashMap::with_capacity(n);
        let mut found = 0;
        for (i, s) in strs.iter().enumerate() {
            let k = h(s.as_bytes());
            if let Some(&j) = seen.get(&k) {
                // different numbers (as doubles), not merely different spellings
                let (a, b) = (strs[j].parse::<f64>().unwrap_or(0.0), s.parse::<f64>().unwrap_or(0.0));
                if strs[j] != *s && a != b {
                    out.push((*name, strs[j].clone(), s.clone()));
                    found += 1;
                    if found >= per_hash {
                        break;
                    }
                }
            } else {
                seen.insert(k, i);
            }
        }
    }
    out
}

pub fn weak_key_histories(ctx: &mut Ctx, monitor: &str, judged_ops: &[&str]) {
    let lens = [16usize, 17, 20, 24, 32, 40, 64, 19];
    let len = lens[(ctx.shard % lens.len() as u64) as usize];
    let mut rng = Rng::from_parts(ctx.seed, "C17-weak-keys", ctx.shard);
    let pairs = colliding_literals(&mut rng, len, if ctx.thorough() { 6 } else { 2 });
    let mut by_hash: std::collections::BTreeMap<&str, u64> = std::collections::BTreeMap::new();
    for (hname, a, b) in pairs.iter() {
        *by_hash.entry(hname).or_insert(0) += 1;
        // the two literals through every route by which a string becomes a number / a key / a piece
        let templates: Vec<Box<dyn Fn(&str) -> (Value, Value)>> = vec![
            Box::new(|s| (json!({"+": [s]}), Value::Null)),
            Box::new(|s| (json!({"*": [s, 1]}), Value::Null)),
            Box::new(|s| (json!({"==": [s, 1]}), Value::Null)),
            Box::new(|s| (json!({"<": [s, "5e300"]}), Value::Null)),
            Box::new(|s| (json!({"max": [s, 0]}), Value::Null)),
            Box::new(|s| (json!({"+": [{"var": "s"}]}), json!({ "s": s }))),
            Box::new(|s| (json!({"filter": [[1, 2, 3], {"<": [{"var": ""}, s]}]}), Value::Null)),
            Box::new(|s| (json!({"-": [format!("  {}  ", s)]}), Value::Null)),
            Box::new(|s| (json!({"var": [s, "D"]}), json!({ s: "V" }))),
            Box::new(|s| (json!({"cat": [s, "|"]}), Value::Null)),
            Box::new(|s| (json!({"in": [s, [s, 1]]}), Value::Null)),
            Box::new(|s| (json!({"substr": [s, 3, 5]}), Value::Null)),
            Box::new(|s| (json!({"missing": [s]}), json!({ s: 1 }))),
            Box::new(|s| (json!({"<": [s, 5]}), Value::Null)),
            Box::new(|s| (json!({">=": [{"var": "s"}, 1e17]}), json!({ "s": s }))),
            Box::new(|s| (json!({"<=": [0, s, 1e300]}), Value::Null)),
            Box::new(|s| (json!({">": [s, [7]]}), Value::Null)),
            Box::new(|s| (json!({"!=": [{"var": "s"}, 12345]}), json!({ "s": s }))),
            Box::new(|s| (json!({"/": [s, 1]}), Value::Null)),
            Box::new(|s| (json!({"%": [s, 1000]}), Value::Null)),
            Box::new(|s| (json!({"min": [s, 1e300]}), Value::Null)),
            Box::new(|s| (json!({"-": [s, 1]}), Value::Null)),
            Box::new(|s| (json!({"in": [{"var": "s"}, {"var": "h"}]}), json!({"s": s, "h": [1, "x", s]}))),
            Box::new(|s| (json!({"missing_some": [1, [s, "zz"]]}), json!({ s: 1 }))),
            Box::new(|s| (json!({"var": s}), json!({ s: {"k": 1} }))),
        ];
        for t in templates.iter() {
            let (ra, da) = t(a);
            let (rb, db) = t(b);
            if !judged_ops.is_empty() && !judged_ops.contains(&crate::ctx::top_op(&ra).as_str()) {
                continue;
            }
            for (r, d) in [(&ra, &da), (&rb, &db), (&ra, &da), (&rb, &db), (&rb, &db), (&ra, &da)] {
                let obs = ctx.observe(r, d);
                let (mo, tr) = refsem::model(r, d);
                ctx.judge(monitor, r, d, &obs, &mo, &tr);
            }
        }
        // ... and against the number the first literal denotes (comparisons and equalities that tell the two apart)
        if let Ok(pa) = a.parse::<f64>() {
            if pa.is_finite() {
                for op in ["==", "!=", "<", "<=", ">", ">=", "===", "max", "min", "-", "in"] {
                    if !judged_ops.is_empty() && !judged_ops.contains(&op) {
                        continue;
                    }
                    let mk = |s: &str| -> (Value, Value) {
                        match op {
                            "in" => (json!({"in": [{"+": [s]}, [pa]]}), Value::Null),
                            "-" => (json!({"-": [s, pa]}), Value::Null),
                            _ => (json!({op: [{"var": "s"}, pa]}), json!({ "s": s })),
                        }
                    };
                    let (ra, da) = mk(a);
                    let (rb, db) = mk(b);
                    for (r, d) in [(&ra, &da), (&rb, &db), (&ra, &da), (&rb, &db), (&rb, &db), (&ra, &da)] {
                        let obs = ctx.observe(r, d);
                        let (mo, tr) = refsem::model(r, d);
                        ctx.judge(monitor, r, d, &obs, &mo, &tr);
                    }
                }
            }
        }
        ctx.mark_nontrivial_key(&format!("c17:weak-key:{}:{}:{}", hname, a, b));
    }
    ctx.cell("weak-key-adjacent-calls");
    ctx.extra.insert("weak_key_pairs".into(), json!({"literal_length": len, "pairs_per_weak_key": by_hash}));
}

pub type Route = Box<dyn Fn(&Value) -> (Value, Value) + Send + Sync>;

/// The operand families and conversion routes of the semantic-key histories (also the material of
/// the cold-start lane).
pub fn semantic_material() -> (Vec<(&'static str, Vec<Value>)>, Vec<Route>) {
    let s = |x: &str| Value::String(x.to_string());
    let n = |x: &str| -> Value { serde_json::from_str(x).unwrap() };
    let long_a: String = "1234567890".repeat(7);
    let fam: Vec<(&'static str, Vec<Value>)> = vec![
        ("case", vec![s("Infinity"), s("INFINITY"), s("infinity"), s("iNFINITY")]),
        ("case", vec![s("-Infinity"), s("-INFINITY"), s("-infinity")]),
        ("case", vec![s("0x1f"), s("0X1F"), s("0x1F"), s("0X1f")]),
        ("case", vec![s("1e3"), s("1E3"), s("1e+3"), s("1000")]),
        ("case", vec![s("NaN"), s("nan"), s("NAN")]),
        ("case", vec![s("true"), s("TRUE"), s("True"), json!(true)]),
        ("case", vec![s("abc"), s("ABC"), s("Abc")]),
        ("case", vec![s("\u{e9}"), s("\u{c9}"), s("e\u{301}"), s("E\u{301}")]),
        ("blanks", vec![s("12"), s(" 12"), s("12 "), s(" 12 "), s("1 2"), s("\t12\n")]),
        ("blanks", vec![s("12px"), s("12 px"), s(" 12px"), s("12"), n("12")]),
        ("blanks", vec![s(""), s(" "), s("  "), s("\u{feff}"), s("\u{a0}")]),
        ("blanks-high", vec![s("\u{feff}12"), s("12\u{3000}"), s("\u{2003}12\u{a0}"), s("\u{1680}7\u{205f}"), s("\u{2028}2\u{2029}"), s("\u{feff}\u{3000}0x10\u{202f}"), s("\u{200b}12"), s("12")]),
        ("blanks", vec![s("a b"), s("ab"), s(" ab"), s("a  b")]),
        ("string-form", vec![n("0"), s("0"), n("[0]"), n("[[0]]"), n("0.0"), n("-0.0"), s("-0")]),
        ("string-form", vec![json!(false), s("false"), n("[false]"), json!(null), s("null"), n("[null]"), s("")]),
        ("string-form", vec![n("1"), s("1"), n("[1]"), n("1.0"), s("1.0"), n("[1.0]"), json!(true)]),
        ("string-form", vec![n("[1,2]"), s("1,2"), n("[[1],[2]]"), n("[1,[2]]"), n("[\"1\",\"2\"]"), n("[\"1,2\"]")]),
        ("string-form", vec![n("{}"), s("[object Object]"), n("[{}]"), n("{\"a\":1}"), n("{\"b\":2}")]),
        ("string-form", vec![n("[]"), s(""), n("[[]]"), n("[null]"), n("[\"\"]"), n("[[],[]]"), s(",")]),
        ("same-double", vec![n("9007199254740992"), n("9007199254740993"), n("9007199254740992.0"), s("9007199254740993"), s("9007199254740992")]),
        ("same-double", vec![n("9223372036854775807"), n("9223372036854775808"), n("9223372036854775806"), n("9223372036854775808.0"), s("9223372036854775807")]),
        ("same-double", vec![n("18446744073709551615"), n("18446744073709551614"), n("18446744073709551616.0"), s("18446744073709551615")]),
        ("same-double", vec![n("-9223372036854775808"), n("-9223372036854775807"), n("-9223372036854775809.0")]),
        ("same-double", vec![n("0.1"), n("0.10000000000000001"), n("0.1000000000000000055511151231257827"), s("0.1"), s("0.10000000000000001")]),
        ("same-double", vec![n("1"), n("1.0"), n("1e0"), n("10e-1"), s("1e0"), s("0x1"), s("01")]),
        ("same-number", vec![s("16"), s("0x10"), s("0b10000"), s("0o20"), s("16.0"), s("1.6e1"), n("16")]),
        ("same-number", vec![s("10"), s("1e1"), s("10.0"), s("010"), s("+10"), n("10")]),
        ("length", vec![s("ab"), s("cd"), s("12"), s("1e"), s("0x")]),
        ("length", vec![s("1234567"), s("7654321"), s("12345.7"), s("abcdefg")]),
        ("prefix", vec![s(&format!("{}7", long_a)), s(&format!("{}8", long_a)), s(&format!("{}.5", long_a)), s(&format!("{}x", long_a))]),
        ("suffix", vec![s(&format!("7{}", long_a)), s(&format!("8{}", long_a)), s(&format!("-{}", long_a)), s(&format!(" {}", long_a))]),
        ("middle", vec![s(&format!("{}5{}", long_a, long_a)), s(&format!("{}6{}", long_a, long_a)), s(&format!("{}.{}", long_a, long_a))]),
        ("prefix", vec![s("a.b.c"), s("a.b.d"), s("a.b"), s("a.b.c.d"), s("a\\.b.c")]),
        ("string-form", vec![n("[null,1,2,3,4,5,6,7,8,9,10,11]"), s(",1,2,3,4,5,6,7,8,9,10,11"), n("[null,null,null,null,null,null,null,null,null]"), s(",,,,,,,,"), n("[[null,1],2,3,4,5,6,7,8,[9,null]]"), s(",1,2,3,4,5,6,7,8,9,")]),
        // working sets a little larger than a small cache (8, 16, 32, 64 entries): distinct operands of one
        // kind, revisited in an order that evicts each entry just before it is needed again
        ("working-set", (0..9).map(|i| s(&format!("w{}.x", i))).collect()),
        ("working-set", (0..17).map(|i| s(&format!("{}{} long string number {:03} \u{65e5}\u{1F600} padded to more than thirty-two bytes{}", "\u{e9}".repeat(i % 5), "\u{1F600}".repeat(i % 3), i, "!".repeat(i)))).collect()),
        ("working-set", (0..33).map(|i| s(&format!("12345678901234567890123456789{:03}", i * 7))).collect()),
        ("working-set", (0..65).map(|i| s(&format!("w{}.x", i * 2))).collect()),
        ("working-set", (0..12).map(|i| Value::Array((0..10).map(|k| if k == i % 10 { Value::Null } else { json!(k + i) }).collect())).collect()),
        ("working-set", (0..70).map(|i| json!((i as f64) * 1.5 + 9007199254740000.0)).collect()),
        ("working-set", (0..40).map(|i| Value::Array((0..40).map(|k| s(&format!("item-{}-{}", i % 3, k + i))).collect())).collect()),
    ];
    let routes: Vec<Route> = vec![
        Box::new(|v| (json!({"+": [v]}), Value::Null)),
        Box::new(|v| (json!({"*": [v, 1]}), Value::Null)),
        Box::new(|v| (json!({"-": [v]}), Value::Null)),
        Box::new(|v| (json!({"/": [v, 1]}), Value::Null)),
        Box::new(|v| (json!({"%": [v, 7]}), Value::Null)),
        Box::new(|v| (json!({"max": [v, 0]}), Value::Null)),
        Box::new(|v| (json!({"min": [v, 1e300]}), Value::Null)),
        Box::new(|v| (json!({"==": [v, 1]}), Value::Null)),
        Box::new(|v| (json!({"==": [v, "1"]}), Value::Null)),
        Box::new(|v| (json!({"!=": [v, 16]}), Value::Null)),
        Box::new(|v| (json!({"==": [{"var": "x"}, {"var": "y"}]}), json!({"x": v, "y": v}))),
        Box::new(|v| (json!({"===": [v, 1]}), Value::Null)),
        Box::new(|v| (json!({"===": [{"var": "x"}, 9007199254740992u64]}), json!({ "x": v }))),
        Box::new(|v| (json!({"<": [v, "5e300"]}), Value::Null)),
        Box::new(|v| (json!({"<": [1, v]}), Value::Null)),
        Box::new(|v| (json!({"<=": [v, 12]}), Value::Null)),
        Box::new(|v| (json!({">=": [{"var": "x"}, "12"]}), json!({ "x": v }))),
        Box::new(|v| (json!({"<": [0, v, "a"]}), Value::Null)),
        Box::new(|v| (json!({"cat": [v, "|", v]}), Value::Null)),
        Box::new(|v| (json!({"cat": [[v, v]]}), Value::Null)),
        Box::new(|v| (json!({"in": [v, [0, "1", 1.0, [1], 9007199254740992u64, "abc", null]]}), Value::Null)),
        Box::new(|v| (json!({"in": [{"var": "x"}, {"var": "h"}]}), json!({"x": v, "h": "12 INFINITY abc 1,2 false"}))),
        Box::new(|v| (json!({"!!": [v]}), Value::Null)),
        Box::new(|v| (json!({"!": [{"var": "x"}]}), json!({ "x": v }))),
        Box::new(|v| (json!({"if": [v, "t", "f"]}), Value::Null)),
        Box::new(|v| (json!({"and": [v, "x"]}), Value::Null)),
        Box::new(|v| (json!({"filter": [[1, 2, 3, 12, 16], {"<": [{"var": ""}, v]}]}), Value::Null)),
        Box::new(|v| (json!({"some": [[v, 1], {"==": [{"var": ""}, 16]}]}), Value::Null)),
        Box::new(|v| (json!({"map": [[v, v], {"cat": [{"var": ""}, "."]}]}), Value::Null)),
        Box::new(|v| (json!({"reduce": [[v, v], {"+": [{"var": "current"}, {"var": "accumulator"}]}, 0]}), Value::Null)),
        Box::new(|v| (json!({"merge": [v, [v]]}), Value::Null)),
        Box::new(|v| {
            let mut d = json!({"a": {"b": {"c": 1, "d": 2}}, "12": "k12", "ab": "kab", "1": "k1", "0": "k0", "": "kempty", "true": "kt", "Infinity": "kinf", "16": "k16", "10": "k10"});
            for i in 0..140 {
                d[format!("w{}", i)] = json!({ "x": i, "y": [i] });
            }
            (json!({"var": [v, "D"]}), d)
        }),
        Box::new(|v| (json!({"in": ["item-1-20", v]}), Value::Null)),
        Box::new(|v| (json!({"in": [{"var": "n"}, {"var": "h"}]}), json!({"n": "item-0-21", "h": v}))),
        Box::new(|v| (json!({"var": [v, "D"]}), json!(["e0", "e1", "e2"]))),
        Box::new(|v| (json!({"missing": [v, "zz"]}), json!({"a": {"b": {"c": 1}}, "12": 1, "ab": 1, "1": 1, "Infinity": 1}))),
        Box::new(|v| (json!({"missing_some": [1, [v, "zz"]]}), json!({"a": {"b": {"d": 1}}, "16": 1, "abc": 1}))),
        Box::new(|v| (json!({"substr": [v, 1, 3]}), Value::Null)),
        Box::new(|v| (json!({"substr": ["abcdefghijklmnop", v]}), Value::Null)),
        Box::new(|v| (json!({"log": [v]}), Value::Null)),
        // calls that fail part-way: while a later operand is being evaluated, inside a step, after some output
        Box::new(|v| (json!({"cat": [v, {"+": ["x"]}]}), Value::Null)),
        Box::new(|v| (json!({"==": [v, {"var": [[]]}]}), Value::Null)),
        Box::new(|v| (json!({"===": [v, v, {"-": ["a"]}]}), Value::Null)),
        Box::new(|v| (json!({"<": [1, v, {"-": ["a"]}]}), Value::Null)),
        Box::new(|v| (json!({"merge": [v, [v], {"/": [1, 0]}]}), Value::Null)),
        Box::new(|v| (json!({"+": [1, 2, v, {"*": ["y"]}]}), Value::Null)),
        Box::new(|v| (json!({"map": [[1, v, 2], {"+": [{"var": ""}, {"%": [1, 0]}]}]}), Value::Null)),
        Box::new(|v| (json!({"reduce": [[v, "q"], {"+": [{"var": "current"}, {"var": "accumulator"}]}, 0]}), Value::Null)),
        Box::new(|v| (json!({"missing_some": [2, [v, "zz", 1.5]]}), json!({"a": 1}))),
        Box::new(|v| (json!({"var": ["zz", {"cat": [v, {"+": ["x"]}]}]}), json!({"a": 1}))),
        Box::new(|v| (json!({"if": [v, {"+": ["x"]}, {"-": ["y"]}]}), Value::Null)),
        Box::new(|v| (json!({"and": [true, v, {"max": ["z"]}]}), Value::Null)),
        Box::new(|v| (json!({"some": [[0, v, {"/": [1]}], {"===": [{"var": ""}, "never"]}]}), Value::Null)),
        Box::new(|v| (json!({"substr": [{"cat": [v]}, {"+": ["x"]}]}), Value::Null)),
        Box::new(|v| (json!({"filter": [[1, 0, v, "x", 2], {"+": [{"var": ""}, {"-": ["q"]}]}]}), Value::Null)),
        Box::new(|v| (json!({"filter": [[1, 0, 2, v, 5], {"if": [{"===": [{"var": ""}, 2]}, {"/": [1, 0]}, true]}]}), Value::Null)),
        Box::new(|v| (json!({"all": [[1, v, 2], {"if": [{"===": [{"var": ""}, 2]}, {"%": [1, 0]}, true]}]}), Value::Null)),
        Box::new(|v| (json!({"none": [[0, v, 2], {"if": [{"===": [{"var": ""}, 2]}, {"max": ["m"]}, false]}]}), Value::Null)),
        Box::new(|v| (json!({"filter": [[1, 2, 3, 4, 5, 6], {"%": [{"var": ""}, 2]}]}), json!({ "unused": v }))),
    ];
    (fam, routes)
}

/// H1-s: operands that are *different* but equal under a normalisation somebody might key a memo
/// on (letter case, surrounding blanks, the string form, the double they denote, a prefix, a suffix,
/// the length), and the *same* operand through every route by which a value is converted (a memo
/// shared by two conversions answers the second with the result of the first). Each family member is
/// driven through all routes back to back, in two orders, then the members alternate route by
/// route; every call is judged against the model (an earlier call may already have left
/// something behind, so "the first result" would not be a safe reference here).
/// The checks of the value properties run the same histories and judge the calls of *their*
/// operators (`judged_ops`; empty = all): the other routes are the history in which the judged
/// calls happen - a property that holds "for any two values" holds whatever was evaluated before.
pub fn semantic_key_histories(ctx: &mut Ctx, monitor: &str, judged_ops: &[&str]) {
    let (mut fam, routes) = semantic_material();
    // every family in every shard (they are cheap); the starting point differs per shard
    let rot = (ctx.shard as usize) % fam.len();
    fam.rotate_left(rot);
    let mut calls = 0u64;
    let mut run = |ctx: &mut Ctx, route: usize, v: &Value| {
        let (r, d) = routes[route](v);
        calls += 1;
        if !judged_ops.is_empty() && !judged_ops.contains(&crate::ctx::top_op(&r).as_str()) {
            let _ = observe::call(&r, &d);
            ctx.evaluations += 1;
            return;
        }
        let obs = ctx.observe(&r, &d);
        let (mo, tr) = refsem::model(&r, &d);
        ctx.judge(monitor, &r, &d, &obs, &mo, &tr);
    };
    let nr = routes.len();
    for (fi, (kind, members)) in fam.iter().enumerate() {
        // a quarter of the families per shard (every family is still driven by a quarter of the shards
        // of every lane, each time in another random order)
        if ctx.nshards >= 4 && (fi as u64) % 4 != ctx.shard % 4 {
            continue;
        }
        // (1) one member through every route, in two different orders (route crossing on one operand)
        for v in members.iter() {
            let mut order: Vec<usize> = (0..nr).collect();
            for _pass in 0..2 {
                for k in (1..nr).rev() {
                    order.swap(k, ctx.rng.below(k + 1));
                }
                for &ro in order.iter() {
                    run(ctx, ro, v);
                }
            }
        }
        // (2) members alternate on each route: A B A B B A
        for ro in 0..nr {
            for a in 0..members.len() {
                let b = (a + 1 + (fi % (members.len() - 1).max(1))) % members.len();
                if a == b {
                    continue;
                }
                for v in [&members[a], &members[b], &members[a], &members[b], &members[b], &members[a]] {
                    run(ctx, ro, v);
                }
            }
        }
        // (3) all members through a random route each, many times (a small table that fills up)
        for _ in 0..200 {
            let v = &members[ctx.rng.below(members.len())];
            let ro = ctx.rng.below(nr);
            run(ctx, ro, v);
        }
        // (4) working sets: every member in turn on one route, three times round (least-recently-used
        // order: each entry is needed again just after a cache of fewer entries has dropped it)
        if *kind == "working-set" {
            for ro in 0..nr {
                for _round in 0..3 {
                    for v in members.iter() {
                        run(ctx, ro, v);
                    }
                }
                // ... and with look-backs: hits between the evictions (the previous entry, the one 7 back)
                for k in 0..members.len() {
                    run(ctx, ro, &members[k]);
                    if k > 0 {
                        run(ctx, ro, &members[k - 1]);
                    }
                    if k >= 7 {
                        run(ctx, ro, &members[k - 7]);
                    }
                }
            }
        }
        ctx.mark_nontrivial_key(&format!("c17:semantic-key:{}:{}", kind, fi));
        ctx.cell(&format!("semantic-key:{}", kind));
    }
    ctx.extra.insert("semantic_key_calls".into(), json!(calls));
}

/// Every value property under concurrency: a sample of the calls this run has already judged (and
/// found in agreement with the model) is evaluated again by 8 threads at once, each in its own
/// order, and then 16 of them are hammered by all threads. Every result must be the one the same
/// call gave when it ran alone. Shared scratch state behind an operator (a one-slot cache of a
/// split string, a table of parsed paths) shows as a result that belongs to another thread's call.
pub fn concurrent_replay(ctx: &mut Ctx, monitor: &str, judged_ops: &[&str]) {
    // besides the sample of judged calls: the look-alike / working-set operands of the mixed histories
    // through this property's operators (their results alone have just been judged there)
    {
        let (fam, routes) = semantic_material();
        let mut extra: Vec<(Value, Value)> = Vec::new();
        for (_, members) in fam.iter() {
            for v in members.iter() {
                for ro in routes.iter() {
                    let (r, d) = ro(v);
                    let op = crate::ctx::top_op(&r);
                    if (judged_ops.is_empty() || judged_ops.contains(&op.as_str())) && !r.to_string().contains("\"log\"") {
                        extra.push((r, d));
                    }
                }
            }
        }
        for k in (1..extra.len()).rev() {
            extra.swap(k, ctx.rng.below(k + 1));
        }
        extra.truncate(2000);
        for (r, d) in extra {
            let key = crate::ctx::outcome_key_plain(&observe::call(&r, &d));
            ctx.evaluations += 1;
            ctx.replay_pool.push((r, d, key));
        }
    }
    // Some monitors judge a huge document under a short stand-in (far ladders): an entry is used only
    // if the call, made once more alone, reproduces the recorded outcome.
    let taken = std::mem::take(&mut ctx.replay_pool);
    let before = taken.len();
    let kept: Vec<(Value, Value, String)> = taken.into_iter().filter(|(r, d, want)| &crate::ctx::outcome_key_plain(&observe::call(r, d)) == want).collect();
    ctx.evaluations += before as u64;
    let not_reproduced_alone = before - kept.len();
    let pool: Arc<Vec<(Value, Value, String)>> = Arc::new(kept);
    if pool.len() < 16 {
        return;
    }
    let threads = 8usize;
    let passes = ctx.budget(2, 12) as usize;
    let hammer_calls = ctx.budget(1_500, 20_000) as usize;
    let barrier = Arc::new(Barrier::new(threads));
    let mism: Arc<Mutex<Vec<(usize, String, usize, &'static str)>>> = Arc::new(Mutex::new(Vec::new()));
    let mut hs = Vec::new();
    for t in 0..threads {
        let (pool, barrier, mism) = (pool.clone(), barrier.clone(), mism.clone());
        let mut rng = Rng::from_parts(ctx.seed ^ 0x7265706c, "replay-thread", (ctx.shard << 8) | t as u64);
        hs.push(std::thread::spawn(move || {
            observe::install_panic_hook();
            let mut order: Vec<usize> = (0..pool.len()).collect();
            barrier.wait();
            for _ in 0..passes {
                for k in (1..order.len()).rev() {
                    order.swap(k, rng.below(k + 1));
                }
                for &i in order.iter() {
                    let (r, d, want) = &pool[i];
                    let got = crate::ctx::outcome_key_plain(&observe::call(r, d));
                    if &got != want {
                        mism.lock().unwrap().push((i, got, t, "mixed"));
                    }
                }
            }
            barrier.wait();
            // hammer: the same 16 calls (chosen by position, the same for every thread) from all threads
            let stride = pool.len() / 16;
            for _ in 0..hammer_calls {
                let i = rng.below(16) * stride;
                let (r, d, want) = &pool[i];
                let got = crate::ctx::outcome_key_plain(&observe::call(r, d));
                if &got != want {
                    mism.lock().unwrap().push((i, got, t, "hammer"));
                }
            }
        }));
    }
    for h in hs {
        let _ = h.join();
    }
    let made = (threads * (passes * pool.len() + hammer_calls)) as u64;
    ctx.evaluations += made;
    ctx.mon(monitor).observed += made;
    ctx.mon(monitor).judged += made;
    for (i, got, t, phase) in mism.lock().unwrap().iter() {
        let (r, d, want) = &pool[*i];
        ctx.violation_x(monitor, &format!("concurrent-result-differs:{}", crate::ctx::top_op(r)), r, d, json!({ "alone": want }), json!({ "concurrent": got }), "a call that agreed with the reference semantics when it ran alone gave a different result while other threads were evaluating", json!({"thread": t, "threads": threads, "phase": phase}));
    }
    ctx.cell("concurrent-replay");
    ctx.extra.insert("concurrent_replay".into(), json!({"calls_sampled": pool.len(), "stand_ins_dropped": not_reproduced_alone, "threads": threads, "passes": passes, "hammer_calls_per_thread": hammer_calls}));
}

/// Cold start: the very first evaluations of a process, made by 8 threads at once. Anything an
/// implementation builds lazily on first use (a table behind a hand-made "initialised" flag, a
/// lazily compiled pattern) is raced here and nowhere else - every other workload has long warmed
/// it up on one thread before a second thread exists. The expectations are computed by the model
/// before the library is touched; each thread walks the whole list from its own starting point.
pub fn coldstart(ctx: &mut Ctx, monitor: &str, judged_ops: &[&str], threads: usize) {
    let (fam, routes) = semantic_material();
    let mut cases: Vec<(Value, Value)> = Vec::new();
    for (_, members) in fam.iter() {
        for v in members.iter().take(if members.len() > 7 { 8 } else { 3 }) {
            for ro in routes.iter() {
                let (r, d) = ro(v);
                if judged_ops.is_empty() || judged_ops.contains(&crate::ctx::top_op(&r).as_str()) {
                    if !r.to_string().contains("\"log\"") {
                        cases.push((r, d));
                    }
                }
            }
        }
    }
    // a different order in every process; the operands whose conversion consults the far end of any
    // character table (white space beyond U+2000) are spread densely over the whole list, so that
    // every thread meets some of them within its first few dozen calls
    for k in (1..cases.len()).rev() {
        cases.swap(k, ctx.rng.below(k + 1));
    }
    let is_hot = |c: &(Value, Value)| {
        let t = c.0.to_string() + &c.1.to_string();
        t.contains('\u{feff}') || t.contains('\u{3000}') || t.contains('\u{2003}') || t.contains('\u{205f}') || t.contains('\u{2028}')
    };
    let (hot, rest): (Vec<_>, Vec<_>) = cases.into_iter().partition(is_hot);
    let mut cases: Vec<(Value, Value)> = Vec::new();
    let (mut hi, mut ri) = (0usize, 0usize);
    while cases.len() < 600 && (ri < rest.len() || hi < hot.len()) {
        if cases.len() % 3 == 0 && !hot.is_empty() {
            cases.push(hot[hi % hot.len()].clone());
            hi += 1;
        } else if ri < rest.len() {
            cases.push(rest[ri].clone());
            ri += 1;
        } else {
            break;
        }
    }
    let expected: Vec<(refsem::MOut, refsem::Trace)> = cases.iter().map(|(r, d)| refsem::model(r, d)).collect();
    let cases = Arc::new(cases);
    let barrier = Arc::new(Barrier::new(threads));
    let mut hs = Vec::new();
    for t in 0..threads {
        let (cases, barrier) = (cases.clone(), barrier.clone());
        hs.push(std::thread::spawn(move || {
            observe::install_panic_hook();
            let n = cases.len();
            let start = t * n / threads.max(1);
            let mut outs: Vec<(usize, Outcome)> = Vec::with_capacity(n);
            barrier.wait();
            for k in 0..n {
                let i = (start + k) % n;
                outs.push((i, observe::call(&cases[i].0, &cases[i].1)));
            }
            outs
        }));
    }
    for (t, h) in hs.into_iter().enumerate() {
        if let Ok(outs) = h.join() {
            for (i, out) in outs {
                ctx.evaluations += 1;
                let obs = Obs { out, logs: vec![], errs: String::new() };
                let before = ctx.violations.len();
                ctx.judge(monitor, &cases[i].0, &cases[i].1, &obs, &expected[i].0, &expected[i].1);
                if ctx.violations.len() > before {
                    let _ = t;
                }
            }
        }
    }
    ctx.cell("cold-start");
}

/// `log` while the caller's standard output refuses the write (`/dev/full`, then a pipe without a
/// reader): a value or an error, never a panic (C01); and nothing of it may linger - the next `log`
/// prints its one line where it belongs (C17: a write error must not change what later calls do).
pub fn unwritable_stdout_class(ctx: &mut Ctx, monitor: &str) {
    if observe::capture_active() {
        let rules = vec![
            json!({"log": 1}), json!({"log": ["x"]}), json!({"log": {"var": "a"}}), json!({"cat": [{"log": "a"}, {"log": "b"}]}), json!({"if": [{"log": true}, {"log": "t"}, "e"]}),
            json!({"map": [[1, 2, 3], {"log": {"var": ""}}]}), json!({"reduce": [[1, 2], {"log": {"+": [{"var": "current"}, {"var": "accumulator"}]}}, 0]}), json!({"log": "\u{e9}\u{1F600}"}),
            json!({"log": {"/": [1]}}), json!({"+": [{"log": 1}, {"log": "x"}]}), json!({"log": "x".repeat(20_000)}),
        ];
        for closed in [false, true] {
            for r in rules.iter() {
                let d = json!({"a": [1, 2]});
                if let Some(out) = observe::call_with_unwritable_stdout(r, &d, closed) {
                    ctx.evaluations += 1;
                    ctx.mon(monitor).observed += 1;
                    ctx.mon(monitor).judged += 1;
                    match &out {
                        Outcome::Panic(p) => {
                            let site = p.rsplit(" @ ").next().unwrap_or("").to_string();
                            let msg: String = p.split(" @ ").next().unwrap_or("").chars().take(60).collect();
                            ctx.violation_x(monitor, &format!("panic:log:{}:{}", msg, site), r, &d, json!("a value or an error"), out.brief(), "evaluation panicked when the line of a `log` could not be written to standard output", json!({"stdout": if closed { "a pipe without a reader" } else { "/dev/full" }}));
                            ctx.cell("unwritable-stdout:panic");
                        }
                        Outcome::Ok(_) => ctx.cell("unwritable-stdout:value"),
                        Outcome::Err(_) => ctx.cell("unwritable-stdout:error"),
                    }
                }
            }
        }
        // nothing of this may linger: the next call prints its line where it belongs
        let obs = ctx.observe(&json!({"log": "after-unwritable"}), &Value::Null);
        if obs.logs != vec!["\"after-unwritable\"".to_string()] || !matches!(obs.out, Outcome::Ok(_)) {
            ctx.violation(monitor, "log-after-unwritable-stdout", &json!({"log": "after-unwritable"}), &Value::Null, json!({"lines": ["\"after-unwritable\""]}), json!({"out": obs.out.brief(), "lines": obs.logs}), "after calls whose log lines could not be written, a later call does not behave normally");
        }
    }
}
