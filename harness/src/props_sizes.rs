//! Size ladders: the same monitors driven at sizes around powers of two and other plausible
//! thresholds (operand counts, collection / string / key-list lengths, nesting depth, digit
//! counts). A change whose effect starts at "more than 8 / 16 / 32 / 64 / 256 / 1000 elements"
//! is invisible to small-value corpora; every property's workload ends with its ladder.

use crate::corpus::*;
use crate::ctx::Ctx;
use crate::observe::Outcome;
use serde_json::{json, Map, Value};

pub const SIZES: &[usize] = &[6, 7, 8, 9, 10, 11, 12, 15, 16, 17, 20, 24, 31, 32, 33, 48, 63, 64, 65, 100, 127, 128, 129, 200, 255, 256, 257, 500, 1000, 1023, 1024, 1025, 2048, 4096, 5000];

fn var(k: &str) -> Value {
    json!({ "var": k })
}

fn sizes(ctx: &Ctx, max: usize) -> Vec<usize> {
    // every shard takes a slice of the ladder; thorough runs take all of it in every 4th shard
    SIZES.iter().cloned().filter(|n| *n <= max).enumerate().filter(|(i, _)| ctx.mine(*i as u64) || (ctx.thorough() && ctx.shard % 4 == 0)).map(|(_, n)| n).collect()
}

fn positions(n: usize) -> Vec<usize> {
    let mut p = vec![0, 1, n / 2, n.saturating_sub(2), n.saturating_sub(1)];
    p.retain(|x| *x < n);
    p.sort();
    p.dedup();
    p
}

fn mixed_string(r: &mut crate::rng::Rng, n: usize) -> String {
    let alpha = ["a", "b", "é", "日", "😀", "\u{301}", "z", "0", " ", "ß", "\u{10FFFF}", "\u{7F}", "\u{80}", "\u{7FF}", "\u{800}", "\u{FFFF}", "\u{10000}", "\u{0}", "\u{D7FF}", "\u{E000}", "~", "\u{A0}"];
    let mut s = String::new();
    for _ in 0..n {
        s.push_str(alpha[r.below(alpha.len())]);
    }
    s
}

pub fn c02(ctx: &mut Ctx) {
    for n in sizes(ctx, 1025) {
        // large literals: arrays of n operation-shaped members, objects with n keys incl. operator keys
        let arr = Value::Array((0..n).map(|i| json!({"log": format!("LEAK-{}", i)})).collect());
        let mut m = Map::new();
        for i in 0..n {
            m.insert(format!("k{}", i), json!({"var": "a"}));
        }
        m.insert("var".into(), json!("a"));
        let obj = Value::Object(m);
        for lit in [arr.clone(), obj.clone(), json!([obj, arr])] {
            let (obs, _) = ctx.check("c02.model", &lit, &json!({"a": 1}));
            ctx.mon("c02.identity").observed += 1;
            ctx.mon("c02.identity").judged += 1;
            if !matches!(&obs.out, Outcome::Ok(v) if v.to_string() == lit.to_string()) || !obs.logs.is_empty() {
                ctx.violation("c02.identity", &format!("not-identity:size{}", n), &json!({"size": n}), &Value::Null, json!("the literal itself, no output"), json!({"logs": obs.logs.len()}), "a large non-rule value did not evaluate to itself");
            }
            ctx.check("c02.model", &json!({"merge": [lit, 1]}), &json!({"a": 1}));
        }
        ctx.cell("size-ladder");
        ctx.mark_nontrivial_key(&format!("c02:size:{}", n));
    }
}

pub fn c03(ctx: &mut Ctx) {
    for n in sizes(ctx, 1025) {
        for op in all_ops() {
            let args: Vec<Value> = crate::props_struct::valid_tuple(op, n);
            let rule = json!({ op: args });
            let (obs, _) = ctx.check("c03.model", &rule, &json!({"a": 1}));
            let documented = crate::refsem::arity_ok(op, n) == Some(true);
            ctx.mon("c03.arity").observed += 1;
            ctx.mon("c03.arity").judged += 1;
            if !documented && !matches!(obs.out, Outcome::Err(_)) {
                ctx.violation("c03.arity", &format!("accepted-undocumented-count:{}:large", op), &json!({"op": op, "count": n}), &Value::Null, json!("an error"), obs.out.brief(), "a large operand count outside the documented set was not rejected");
            }
            if documented && !matches!(obs.out, Outcome::Ok(_)) {
                ctx.violation("c03.arity", &format!("rejected-documented-count:{}:large", op), &json!({"op": op, "count": n}), &Value::Null, json!("a value"), obs.out.brief(), "a large documented operand count was rejected");
            }
        }
        ctx.cell("size-ladder");
        ctx.mark_nontrivial_key(&format!("c03:size:{}", n));
    }
}

pub fn c04(ctx: &mut Ctx) {
    for n in sizes(ctx, 1025) {
        let items = Value::Array((0..n).map(|i| if i % 3 == 0 { json!({"log": format!("LEAK-{}", i)}) } else if i % 3 == 1 { json!({"var": "secret"}) } else { json!(i) }).collect());
        let data = json!({"items": items, "secret": 424242, "x": {"var": "secret"}});
        for rule in [
            json!({"map": [var("items"), var("")]}),
            json!({"filter": [var("items"), {"!!": [var("")]}]}),
            json!({"reduce": [var("items"), {"merge": [var("accumulator"), [var("current")]]}, []]}),
            json!({"all": [var("items"), {"!==": [var(""), 424242]}]}),
            json!({"some": [var("items"), {"===": [var(""), 424242]}]}),
            json!({"none": [{"merge": [var("items"), var("items")]}, {"===": [var(""), 424242]}]}),
            json!({"merge": [var("items"), var("x")]}),
            json!({"in": [var("x"), var("items")]}),
            json!({"cat": [var("items")]}),
            json!({"var": [format!("items.{}", n - 1), var("x")]}),
            json!({"var": ["nope", var("items")]}),
        ] {
            let (obs, _) = ctx.check("c04.model", &rule, &data);
            if !obs.logs.is_empty() {
                ctx.violation("c04.leak", &format!("data-executed:size:{}", crate::ctx::top_op(&rule)), &rule, &json!({"size": n}), json!("no output"), json!(obs.logs.len()), "data of a large collection was interpreted as logic");
            }
        }
        ctx.cell("size-ladder");
        ctx.mark_nontrivial_key(&format!("c04:size:{}", n));
    }
}

pub fn c05(ctx: &mut Ctx) {
    let data = json!({"t": 1, "f": 0});
    for n in sizes(ctx, 1025) {
        for p in positions(n) {
            // operand list: falsy probes everywhere, a deciding truthy probe at p, poison after it
            for op in ["or", "and", "if", "?:"] {
                let mut args: Vec<Value> = Vec::new();
                for i in 0..n {
                    let probe_f = json!({"!": [{"log": format!("q{}", i)}]});
                    let probe_t = json!({"log": format!("q{}", i)});
                    let v = match op {
                        "or" => if i == p { probe_t } else if i > p && i % 5 == 0 { json!({"/": [1]}) } else { probe_f },
                        "and" => if i == p { probe_f } else if i > p && i % 5 == 0 { json!({"/": [1]}) } else { probe_t },
                        _ => {
                            // if: conditions at even positions, branches at odd ones
                            let deciding_cond = 2 * (p / 2);
                            if i == deciding_cond { probe_t } else if i % 2 == 0 && i < deciding_cond { probe_f } else if i == deciding_cond + 1 { json!({"log": format!("branch{}", i)}) } else if i > deciding_cond + 1 && i % 3 == 0 { json!({"/": [1]}) } else { probe_f }
                        }
                    };
                    args.push(v);
                }
                ctx.check("c05.model", &json!({ op: args }), &data);
            }
        }
        // nothing decides: the last operand / the else branch / null
        let all_f: Vec<Value> = (0..n).map(|i| json!({"!": [{"log": format!("f{}", i)}]})).collect();
        let all_t: Vec<Value> = (0..n).map(|i| json!({"log": format!("t{}", i)})).collect();
        ctx.check("c05.model", &json!({ "or": all_f }), &data);
        ctx.check("c05.model", &json!({ "and": all_t }), &data);
        ctx.check("c05.model", &json!({ "if": all_f }), &data);
        ctx.cell("size-ladder");
        ctx.mark_nontrivial_key(&format!("c05:size:{}", n));
    }
    // nesting depth ladder: if / and / or nested d deep in every operand position
    for d in sizes(ctx, 60) {
        for op in ["if", "and", "or"] {
            for pos in 0..3 {
                let mut rule = json!({"log": "leaf"});
                for k in 0..d {
                    let mut args = vec![json!({"log": format!("a{}", k)}), json!({"log": format!("b{}", k)}), json!({"!": [{"log": format!("c{}", k)}]})];
                    args[pos] = rule;
                    rule = json!({ op: args });
                }
                ctx.check("c05.model", &rule, &data);
            }
        }
        ctx.mark_nontrivial_key(&format!("c05:depth:{}", d));
    }
}

pub fn c06(ctx: &mut Ctx) {
    for n in sizes(ctx, 5000) {
        let s = mixed_string(&mut ctx.rng, n);
        let vals = vec![
            Value::Array(vec![json!(0); n]),
            Value::Array(vec![Value::Null; n]),
            Value::String(s),
            Value::String(" ".repeat(n)),
            Value::String("0".repeat(n)),
            { let mut m = Map::new(); for i in 0..n.min(300) { m.insert(format!("k{}", i), json!(0)); } Value::Object(m) },
            { let mut v = json!([]); for _ in 0..n.min(100) { v = json!([v]); } v },
            json!(format!("0.{}", "0".repeat(n.min(400)))),
            serde_json::from_str::<Value>(&format!("0.{}1", "0".repeat(n.min(320)))).unwrap_or(json!(0)),
            serde_json::from_str::<Value>(&format!("0.{}e-{}", "0".repeat(n.min(100)), n.min(300))).unwrap_or(json!(0)),
        ];
        for v in vals {
            crate::props_values::c06_value_pub(ctx, &v);
        }
        ctx.cell("size-ladder");
    }
    // values that only arise as operator results
    let d = json!({"s": "héllo", "n": 5, "z": 0, "arr": [1, 2]});
    for (e, _why) in [
        (json!({"-": [var("n"), 5]}), "arith zero"), (json!({"*": [var("z"), -1]}), "negative zero"), (json!({"%": [var("n"), 5]}), "mod zero"), (json!({"/": [var("z"), 5]}), "div zero"),
        (json!({"substr": [var("s"), 2, 0]}), "empty substr"), (json!({"substr": [var("s"), 99]}), "empty substr"), (json!({"cat": []}), "empty cat"), (json!({"merge": []}), "empty merge"),
        (json!({"filter": [var("arr"), false]}), "empty filter"), (json!({"map": [[], 1]}), "empty map"), (json!({"max": [var("z"), -3]}), "max zero"), (json!({"min": [0.0, 3]}), "min zero"),
        (json!({"+": []}), "empty sum"), (json!({"+": ["0.0"]}), "parsed zero"), (json!({"-": ["-0"]}), "neg zero string"), (json!({"missing": ["s"]}), "empty missing"), (json!({"var": "nope"}), "null var"),
        (json!({"reduce": [[], 1, 0]}), "reduce init"), (json!({"if": [false, 1]}), "if null"), (json!({"and": [var("arr"), var("z")]}), "and zero"), (json!({"*": [1e-200, 1e-200]}), "underflow zero"),
        (json!({"*": [5e-324, 1]}), "subnormal"), (json!({"/": [1e-300, 1e10]}), "subnormal result"), (json!({"cat": [" "]}), "blank"), (json!({"cat": ["0"]}), "zero string"),
    ] {
        for pos in ["!!", "!", "if", "and", "or", "filter", "all", "some", "none"] {
            let rule = match pos {
                "!!" => json!({"!!": [e]}),
                "!" => json!({"!": [e]}),
                "if" => json!({"if": [false, "X", e, "T", "F"]}),
                "and" => json!({"and": [1, e, "M"]}),
                "or" => json!({"or": [0, e, "M"]}),
                "filter" => json!({"filter": [[1, 2, 3], e]}),
                q => json!({ q: [[1, 2], e] }),
            };
            ctx.check("c06.model", &rule, &d);
        }
    }
}

pub fn c07(ctx: &mut Ctx) {
    for n in sizes(ctx, 1025) {
        let z = "0".repeat(n);
        let nine = "9".repeat(n);
        let sp = " ".repeat(n);
        let strs = vec![
            format!("1{}", z), format!("0.{}1", z), format!("{}1", z), format!("{}1{}", sp, sp), format!("1e{}", n), format!("1e-{}", n), format!("{}.{}", nine, nine),
            format!("0x{}", "f".repeat(n.min(40))), format!("0b{}", "1".repeat(n.min(130))), format!("1{}", "\u{A0}".repeat(n)), format!("{}e{}", nine, n), format!("+{}", nine), format!("-{}.5", z),
            format!("{}x", nine), mixed_string(&mut ctx.rng, n),
        ];
        for s in strs.iter() {
            let sv = json!(s);
            for other in [json!(1), json!(0), json!(10), json!(1e21), json!(true), json!([s]), json!(s), Value::Null, json!(15), json!(1.0e100)] {
                crate::props_values::c07_pair_pub(ctx, &sv, &other);
            }
            // the number the string denotes (when it denotes one) must compare equal to it
            if let crate::refsem::SN::Num(f) = crate::refsem::string_to_number(s) {
                if f.is_finite() {
                    if let Some(num) = serde_json::Number::from_f64(f) {
                        crate::props_values::c07_pair_pub(ctx, &sv, &Value::Number(num));
                    }
                }
            }
        }
        ctx.cell("size-ladder");
    }
}

pub fn c08(ctx: &mut Ctx) {
    let d = json!({"arr": [1, 2], "o": {"a": 1}, "s": "x", "n": 1});
    // values that reach === as results of operators (fresh instances every time)
    let exprs = vec![
        json!({"map": [var("arr"), var("")]}), json!({"filter": [var("arr"), true]}), json!({"merge": [var("arr")]}), json!({"if": [true, var("arr")]}), json!({"or": [var("arr")]}), json!({"and": [1, var("o")]}),
        json!({"reduce": [var("arr"), var("accumulator"), var("o")]}), json!({"var": ["zz", var("arr")]}), var("arr"), var("o"), var(""), json!({"var": "arr.0"}), json!({"+": [var("n")]}), json!({"cat": [var("s")]}),
        json!({"substr": [var("s"), 0]}), json!({"max": [var("n")]}), json!({"missing": ["zz"]}), json!({"log": var("arr")}),
    ];
    for a in exprs.iter() {
        for b in exprs.iter() {
            for op in ["===", "!==", "==", "!="] {
                ctx.check("c08.model", &json!({ op: [a, b] }), &d);
            }
        }
    }
    // inside element scopes
    for q in ["all", "some", "none", "filter", "map"] {
        for data in [json!([[1], [1]]), json!([{"a": 1}, {"a": 1}]), json!(["x", "x"])] {
            ctx.check("c08.model", &json!({ q: [var(""), {"===": [var(""), var("")]}] }), &data);
        }
    }
    for n in sizes(ctx, 5000) {
        let s = mixed_string(&mut ctx.rng, n);
        let arr = Value::Array(vec![json!(1); n]);
        for (a, b) in [(json!(s), json!(s)), (json!(s), json!(format!("{}x", s))), (arr.clone(), arr.clone()), (json!(n), json!(n as f64))] {
            crate::props_values::c08_pair_pub(ctx, &a, &b);
        }
        ctx.cell("size-ladder");
    }
}

pub fn c09(ctx: &mut Ctx) {
    for n in sizes(ctx, 1025) {
        let pre = mixed_string(&mut ctx.rng, n);
        let pairs = vec![
            (format!("{}a", pre), format!("{}b", pre)), (pre.clone(), format!("{}a", pre)), (format!("{}\u{FFFF}", pre), format!("{}\u{10000}", pre)), (format!("{}é", pre), format!("{}z", pre)),
            (format!("1{}", "0".repeat(n)), format!("9{}", "0".repeat(n.saturating_sub(1)))), (format!("{}1", " ".repeat(n)), "2".to_string()), (format!("1e{}", n), format!("1e{}", n + 1)),
        ];
        for (a, b) in pairs {
            for (x, y) in [(json!(a), json!(b)), (json!([a]), json!(b)), (json!(a), json!([b])), (json!([a]), json!([b]))] {
                crate::props_values::c09_pair_pub(ctx, &x, &y);
                crate::props_values::c09_triple_pub(ctx, &x, &y, &x);
                crate::props_values::c09_triple_pub(ctx, &json!(0), &x, &y);
            }
        }
        // arrays of n numbers compare through their comma-joined text
        let a1 = Value::Array((0..n).map(|i| json!(i % 10)).collect());
        let mut a2v: Vec<Value> = (0..n).map(|i| json!(i % 10)).collect();
        a2v[n - 1] = json!(11);
        crate::props_values::c09_pair_pub(ctx, &a1, &Value::Array(a2v));
        ctx.cell("size-ladder");
    }
}

pub fn c10(ctx: &mut Ctx) {
    for n in sizes(ctx, 5000) {
        let ops: Vec<Vec<Value>> = vec![
            vec![json!(1); n], vec![json!(0.1); n], vec![json!("2"); n.min(1100)], (0..n).map(|i| json!(i as i64 - (n as i64) / 2)).collect(), (0..n).map(|i| json!(1.0 + (i as f64) * 1e-3)).collect(),
            (0..n).map(|i| if i == n - 1 { json!("x") } else { json!(1) }).collect(), (0..n).map(|i| if i == n / 2 { json!(null) } else { json!(2) }).collect(), (0..n).map(|i| if i == 0 { json!(9007199254740992i64) } else { json!(1) }).collect(),
            (0..n).map(|i| if i % 2 == 0 { json!(1e308) } else { json!(-1e308) }).collect(), (0..n).map(|i| json!(format!("{}px", i))).collect(), (0..n).map(|i| if i == n - 1 { json!(-7) } else { json!(i) }).collect(),
        ];
        for tuple in ops {
            for op in ["+", "*", "max", "min"] {
                crate::props_values::c10_case_pub(ctx, op, &tuple);
            }
        }
        // digit-count ladders in numeric strings
        let z = "0".repeat(n.min(400));
        for s in [format!("1{}", z), format!("0.{}1", z), format!("{}.5", "9".repeat(n.min(400))), format!("1{}px", z), format!("  1{}  ", z)] {
            for op in ["+", "-", "*", "/", "%", "min", "max"] {
                match op {
                    "/" | "%" => crate::props_values::c10_case_pub(ctx, op, &[json!(s), json!(3)]),
                    _ => crate::props_values::c10_case_pub(ctx, op, &[json!(s)]),
                }
            }
        }
        ctx.cell("size-ladder");
    }
    // operands that only arise as intermediate results
    let d = json!({"a": 9007199254740993i64, "b": 0.1, "s": " 12px"});
    for e in [json!({"+": [var("a"), 1]}), json!({"*": [var("b"), 3]}), json!({"cat": [var("s"), "3"]}), json!({"substr": [var("s"), 1, 2]}), json!({"max": [var("a"), var("b")]}), json!({"merge": [var("b")]}), json!({"-": [var("b")]}), json!({"/": [1, 3]}), json!({"%": [-7, 3]})] {
        for op in ["+", "-", "*", "/", "%", "min", "max"] {
            ctx.check("c10.model", &json!({ op: [e, e] }), &d);
            ctx.check("c10.model", &json!({ op: [e, 2] }), &d);
            ctx.check("c10.model", &json!({ op: [3, e] }), &d);
        }
    }
}

pub fn c11(ctx: &mut Ctx) {
    for n in sizes(ctx, 5000) {
        let arr = Value::Array((0..n).map(|i| json!(i)).collect());
        let s = mixed_string(&mut ctx.rng, n);
        let mut m = Map::new();
        for i in 0..n {
            m.insert(format!("key{}", i), json!(i));
            m.insert(i.to_string(), json!(format!("num{}", i)));
        }
        let longkey = "k".repeat(n);
        let dotted = vec!["p"; n.min(120)].join(".");
        let mut deep = json!("bottom");
        for _ in 0..n.min(120) {
            deep = json!({ "p": deep });
        }
        let data = json!({"arr": arr, "s": s, "obj": Value::Object(m), longkey.clone(): "long", "deep": deep, format!("a.{}", longkey): "dotted-long"});
        let ni = n as i64;
        let mut rules: Vec<Value> = Vec::new();
        for i in [0, 1, ni / 2, ni - 2, ni - 1, ni, ni + 1, -1, -2, -ni / 2, -ni + 1, -ni, -ni - 1] {
            rules.push(json!({ "var": format!("arr.{}", i) }));
            rules.push(json!({"var": [format!("s.{}", i), "DEFAULT"]}));
            rules.push(json!({ "var": format!("obj.key{}", i) }));
            rules.push(json!({ "var": format!("obj.{}", i) }));
        }
        rules.push(json!({ "var": longkey }));
        rules.push(json!({ "var": format!("a\\.{}", longkey) }));
        rules.push(json!({ "var": format!("deep.{}", dotted) }));
        rules.push(json!({"var": [format!("deep.{}.p", dotted), "DEFAULT"]}));
        rules.push(json!({"var": [{"cat": ["arr.", ni - 1]}]}));
        for r in rules {
            ctx.check("c11.model", &r, &data);
        }
        // integer keys straight into large arrays / strings
        for i in [0, ni - 1, ni, -1, -ni, -ni - 1] {
            ctx.check("c11.model", &json!({ "var": i }), &data["arr"]);
            ctx.check("c11.model", &json!({ "var": i }), &data["s"]);
        }
        ctx.cell("size-ladder");
        ctx.mark_nontrivial_key(&format!("c11:size:{}", n));
    }
}

pub fn c12(ctx: &mut Ctx) {
    for n in sizes(ctx, 1025) {
        let mut m = Map::new();
        for i in 0..n {
            if i % 3 != 0 {
                m.insert(format!("k{}", i), if i % 7 == 0 { Value::Null } else { json!(i) });
            }
        }
        let data = Value::Object(m);
        let keys: Vec<Value> = (0..n).map(|i| json!(format!("k{}", i))).collect();
        let mut dup = keys.clone();
        dup.extend(keys.iter().cloned());
        let mut with_null = keys.clone();
        with_null.insert(n / 2, Value::Null);
        let present = n - (n + 2) / 3;
        for list in [keys.clone(), dup, with_null] {
            ctx.check("c12.missing.model", &json!({ "missing": list }), &data);
            ctx.check("c12.missing.model", &json!({"missing": [list]}), &data);
            for need in [0, 1, present.saturating_sub(1), present, present + 1, n, n + 1, 2 * n] {
                ctx.check("c12.missing_some.model", &json!({"missing_some": [need, list]}), &data);
            }
        }
        // integer keys and their string twins (distinct keys with the same lookup path), on
        // object and array data; repeated present keys; thresholds beyond small numbers
        let arr_data = Value::Array((0..n / 2).map(|i| if i % 5 == 0 { Value::Null } else { json!(i) }).collect());
        let mut twins: Vec<Value> = Vec::new();
        for i in 0..n {
            twins.push(if i % 2 == 0 { json!(i as i64) } else { json!((i - 1).to_string()) });
        }
        let mut reps: Vec<Value> = Vec::new();
        for i in 0..n {
            reps.push(json!(format!("k{}", 1 + (i % 5))));
        }
        reps.push(json!("gone"));
        reps.push(json!(7));
        reps.push(json!("7"));
        let mut twins_obj = Map::new();
        for i in 0..n / 3 {
            twins_obj.insert(i.to_string(), json!(i));
        }
        let twins_obj = Value::Object(twins_obj);
        for (list, d) in [(twins.clone(), arr_data.clone()), (twins.clone(), twins_obj.clone()), (twins.clone(), json!({})), (reps.clone(), data.clone()), (reps.clone(), json!({}))] {
            ctx.check("c12.missing.model", &json!({ "missing": list }), &d);
            for need in [0usize, 1, 2, 4, 5, 6, 8, 9, 10, n / 2, n - 1, n, n + 1, n + 3, 2 * n] {
                let rule = json!({"missing_some": [need, list]});
                let (obs, _) = ctx.check("c12.missing_some.model", &rule, &d);
                // model-free: a non-empty result lists each missing key once, in order, and keeps
                // keys apart that differ as JSON values (7 and "7")
                if let Outcome::Ok(Value::Array(got)) = &obs.out {
                    if !got.is_empty() {
                        let mut want: Vec<Value> = Vec::new();
                        for k in list.iter() {
                            if let crate::refsem::Look::Absent = crate::refsem::lookup(&d, k) {
                                if !want.contains(k) {
                                    want.push(k.clone());
                                }
                            }
                        }
                        ctx.mon("c12.missing_some.laws").observed += 1;
                        ctx.mon("c12.missing_some.laws").judged += 1;
                        if Value::Array(want.clone()).to_string() != Value::Array(got.clone()).to_string() {
                            ctx.violation("c12.missing_some.laws", "not-the-distinct-missing-keys:large", &rule, &json!({"size": n}), json!(want.len()), json!(got.len()), "a non-empty result is not the distinct missing keys in order");
                        }
                    }
                }
            }
        }
        // all absent / all present
        ctx.check("c12.missing_some.model", &json!({"missing_some": [1, keys]}), &json!({}));
        let absent_dup: Vec<Value> = (0..n).map(|_| json!("gone")).collect();
        ctx.check("c12.missing_some.model", &json!({"missing_some": [1, absent_dup]}), &data);
        ctx.check("c12.missing.model", &json!({ "missing": absent_dup }), &data);
        ctx.cell("size-ladder");
        ctx.mark_nontrivial_key(&format!("c12:size:{}", n));
    }
}

pub fn c13(ctx: &mut Ctx) {
    for n in sizes(ctx, 5000) {
        let arr = Value::Array((0..n).map(|i| json!(i)).collect());
        let strs = Value::Array((0..n.min(600)).map(|i| json!(format!("s{}", i))).collect());
        let data = json!({"arr": arr, "strs": strs, "outer": "O"});
        for rule in [
            json!({"map": [var("arr"), {"+": [var(""), 1]}]}),
            json!({"map": [var("arr"), var("outer")]}),
            json!({"filter": [var("arr"), {"%": [var(""), 3]}]}),
            json!({"filter": [var("arr"), {"<": [var(""), 5]}]}),
            json!({"reduce": [var("arr"), {"+": [var("current"), var("accumulator")]}, 0]}),
            json!({"reduce": [var("arr"), {"-": [var("accumulator"), var("current")]}, 0]}),
            json!({"reduce": [var("strs"), {"cat": [var("accumulator"), var("current")]}, ""]}),
            json!({"reduce": [var("strs"), {"merge": [var("accumulator"), [var("current")]]}, []]}),
            json!({"reduce": [var("arr"), {"max": [var("current"), var("accumulator")]}, -1]}),
            json!({"reduce": [var("arr"), var("outer"), "I"]}),
            json!({"map": [{"filter": [var("arr"), {">=": [var(""), n / 2]}]}, {"*": [var(""), 2]}]}),
        ] {
            ctx.check("c13.model", &rule, &data);
        }
        // probes on a moderate prefix: one evaluation per element, in order
        if n <= 300 {
            ctx.check("c13.model", &json!({"map": [var("arr"), {"log": var("")}]}), &data);
            ctx.check("c13.model", &json!({"reduce": [var("arr"), {"log": {"+": [var("current"), var("accumulator")]}}, 0]}), &data);
        }
        ctx.cell("size-ladder");
        ctx.mark_nontrivial_key(&format!("c13:size:{}", n));
    }
    // nesting of higher-order operators beyond 3 (beyond 63 only a Rust API caller can build it)
    let mut depths = sizes(ctx, 40);
    if ctx.mine(3) {
        depths.extend([100usize, 127, 128, 129, 130, 200, 300]);
    }
    for d in depths {
        // data nested d arrays deep; every level of the rule consumes one level of the data
        let mut data = json!(1);
        for _ in 0..d {
            data = json!([data]);
        }
        let mut map_chain = json!({"+": [var(""), 1]});
        let mut all_chain = json!({"!!": [var("")]});
        let mut mixed = json!({"cat": [var(""), "!"]});
        let mut red_chain = var("");
        for k in 0..d {
            map_chain = json!({"map": [var(""), map_chain]});
            all_chain = json!({"all": [var(""), all_chain]});
            mixed = match k % 3 {
                0 => json!({"map": [var(""), mixed]}),
                1 => json!({"map": [{"filter": [var(""), true]}, {"if": [true, mixed, 0]}]}),
                _ => json!({"map": [var(""), {"or": [false, mixed]}]}),
            };
            red_chain = json!({"reduce": [var(""), {"merge": [var("accumulator"), [{"var": "current"}]]}, {"if": [true, red_chain]}]});
        }
        ctx.check("c13.model", &map_chain, &data);
        ctx.check("c13.model", &all_chain, &data);
        ctx.check("c13.model", &mixed, &data);
        ctx.check("c13.model", &red_chain, &data);
        ctx.mark_nontrivial_key(&format!("c13:depth:{}", d));
        ctx.cell("deep-lazy-nesting");
    }
}

pub fn c14(ctx: &mut Ctx) {
    for n in sizes(ctx, 5000) {
        for p in positions(n) {
            let arr = Value::Array((0..n).map(|i| json!(if i == p { 0 } else { 1 })).collect());
            let arr2 = Value::Array((0..n).map(|i| json!(if i == p { 1 } else { 0 })).collect());
            let s: String = (0..n).map(|i| if i == p { '😀' } else if i % 2 == 0 { 'é' } else { 'a' }).collect();
            let data = json!({"a": arr, "b": arr2, "s": s});
            for q in ["all", "some", "none"] {
                // the predicate errs on elements after the deciding one (short-circuit must hide it)
                ctx.check("c14.model", &json!({ q: [var("a"), {"if": [{"<": [var(""), 2]}, var(""), {"/": [1]}]}] }), &data);
                ctx.check("c14.model", &json!({ q: [var("b"), var("")] }), &data);
                ctx.check("c14.model", &json!({ q: [var("s"), {"==": [var(""), "😀"]}] }), &data);
                ctx.check("c14.model", &json!({ q: [var("s"), {"!=": [var(""), "😀"]}] }), &data);
                ctx.check("c14.model", &json!({ q: [json!(s), {"in": [var(""), "aé"]}] }), &data);
                if n <= 300 {
                    ctx.check("c14.model", &json!({ q: [var("a"), {"log": var("")}] }), &data);
                    ctx.check("c14.model", &json!({ q: [var("s"), {"log": {"==": [var(""), "😀"]}}] }), &data);
                }
            }
        }
        ctx.cell("size-ladder");
        ctx.mark_nontrivial_key(&format!("c14:size:{}", n));
    }
    // quantifiers nested in each other and in map / filter
    let data = json!({"m": [[1, 2], [0, 3], [], "aé", null], "t": [[[1]], [[0]]]});
    for (outer, inner) in [("all", "some"), ("some", "all"), ("none", "none"), ("map", "all"), ("filter", "some"), ("map", "none")] {
        ctx.check("c14.model", &json!({ outer: [var("m"), { inner: [var(""), {"!!": [var("")]}] }] }), &data);
        ctx.check("c14.model", &json!({ outer: [var("t"), { inner: [var(""), { inner: [var(""), var("")] }] }] }), &data);
    }
}

pub fn c15(ctx: &mut Ctx) {
    for n in sizes(ctx, 5000) {
        let hay: Vec<Value> = (0..n).map(|i| json!(i)).collect();
        let mut obj_hay: Vec<Value> = (0..n.min(400)).map(|i| json!({"id": i, "v": [i, {"w": i as f64}]})).collect();
        obj_hay.reverse();
        for p in positions(n) {
            for needle in [json!(p), json!(p as f64), json!(p.to_string()), json!(n + 5)] {
                crate::props_values::c15_in_pub(ctx, &needle, &Value::Array(hay.clone()));
            }
            if p < obj_hay.len() {
                crate::props_values::c15_in_pub(ctx, &json!({"v": [p as f64, {"w": p}], "id": p as f64}), &Value::Array(obj_hay.clone()));
            }
        }
        // substring at every ladder position of a long multi-byte string
        let s = mixed_string(&mut ctx.rng, n);
        let cs: Vec<char> = s.chars().collect();
        for p in positions(n) {
            let needle: String = cs[p..(p + 3).min(n)].iter().collect();
            crate::props_values::c15_in_pub(ctx, &json!(needle), &json!(s));
            crate::props_values::c15_in_pub(ctx, &json!(format!("{}\u{1F600}\u{1F601}", needle)), &json!(s));
        }
        // arrays of n numbers as needle / member, one position re-spelled (int vs double)
        if n <= 1100 {
            for p in positions(n) {
                let a: Vec<Value> = (0..n).map(|i| json!(i as i64)).collect();
                let mut b = a.clone();
                b[p] = json!(p as f64);
                let mut c = a.clone();
                c[p] = json!({"w": [p as f64]});
                let mut c2 = a.clone();
                c2[p] = json!({"w": [p as i64]});
                let mut diff = a.clone();
                diff[p] = json!(p as f64 + 0.5);
                crate::props_values::c15_in_pub(ctx, &Value::Array(a.clone()), &json!([Value::Array(b.clone())]));
                crate::props_values::c15_in_pub(ctx, &Value::Array(b), &json!([1, Value::Array(a.clone())]));
                crate::props_values::c15_in_pub(ctx, &Value::Array(c), &json!([Value::Array(c2)]));
                crate::props_values::c15_in_pub(ctx, &Value::Array(diff), &json!([Value::Array(a.clone())]));
                crate::props_values::c15_in_pub(ctx, &json!({"row": a.clone()}), &json!([{"row": (0..n).map(|i| json!(i as f64)).collect::<Vec<_>>()}]));
            }
        }
        // merge with n operands / arrays of n elements
        crate::props_values::c15_merge_pub(ctx, &hay);
        crate::props_values::c15_merge_pub(ctx, &[Value::Array(hay.clone()), json!(1), Value::Array(vec![json!([1]); n.min(500)])]);
        let nested: Vec<Value> = (0..n.min(1100)).map(|i| if i % 2 == 0 { json!([i, [i]]) } else { json!(i) }).collect();
        crate::props_values::c15_merge_pub(ctx, &nested);
        ctx.cell("size-ladder");
    }
    // nesting depth ladder for deep membership
    for d in sizes(ctx, 100) {
        let mut a = json!(1);
        let mut b = json!(1.0);
        let mut c = json!(2);
        for k in 0..d {
            if k % 2 == 0 {
                a = json!([a]);
                b = json!([b]);
                c = json!([c]);
            } else {
                a = json!({ "k": a });
                b = json!({ "k": b });
                c = json!({ "k": c });
            }
        }
        crate::props_values::c15_in_pub(ctx, &a, &json!([c.clone(), b.clone()]));
        crate::props_values::c15_in_pub(ctx, &a, &json!([c]));
        // objects with many keys
        let mut m1 = Map::new();
        let mut m2 = Map::new();
        for i in 0..d {
            m1.insert(format!("k{}", i), json!(i));
            m2.insert(format!("k{}", d - 1 - i), json!((d - 1 - i) as f64));
        }
        crate::props_values::c15_in_pub(ctx, &Value::Object(m1.clone()), &json!([Value::Object(m2.clone())]));
        m2.insert("k0".into(), json!(99));
        crate::props_values::c15_in_pub(ctx, &Value::Object(m1), &json!([Value::Object(m2)]));
    }
}

pub fn c16(ctx: &mut Ctx) {
    for n in sizes(ctx, 5000) {
        let s = mixed_string(&mut ctx.rng, n);
        let ni = n as i64;
        crate::props_values::c16_laws_pub(ctx, &s, if n > 300 { Some(positions(n).into_iter().map(|p| p as i64).collect()) } else { None });
        for start in [0, 1, ni / 2, ni - 1, ni, ni + 1, -1, -ni / 2, -ni + 1, -ni, -ni - 1, i64::MAX, i64::MIN] {
            crate::props_values::c16_substr_pub(ctx, &s, start, None);
            for len in [0, 1, ni / 2, ni - 1, ni, ni + 1, -1, -ni / 2, -ni, -ni - 1, i64::MAX, i64::MAX - 1, i64::MIN] {
                crate::props_values::c16_substr_pub(ctx, &s, start, Some(len));
            }
        }
        // cat: many operands, long operands, numbers with many digits, deep nesting
        let ops: Vec<Value> = (0..n.min(1100)).map(|i| match i % 5 { 0 => json!(i), 1 => json!(format!("s{}", i)), 2 => json!([i, null, [i]]), 3 => Value::Null, _ => json!(i as f64 + 0.5) }).collect();
        crate::props_values::c16_cat_pub(ctx, &ops);
        crate::props_values::c16_cat_pub(ctx, &[json!(s), json!([s, s]), json!(s)]);
        let mut deep = json!([null, 1]);
        for _ in 0..n.min(100) {
            deep = json!([deep, null]);
        }
        crate::props_values::c16_cat_pub(ctx, &[deep, json!("|")]);
        ctx.cell("size-ladder");
    }
    crate::props_values::c16_tables(ctx);
    for t in ["123456789012345678901234567890", "1e21", "1e-7", "0.000001", "1e300", "123456789.123456789", "-0.0", "1.7976931348623157e308", "5e-324", "100000000000000000000", "1e20", "9007199254740993"] {
        crate::props_values::c16_cat_pub(ctx, &[parse(t), json!([parse(t)]), json!("|")]);
    }
}
