//! Fixed hostile corpora and seeded generators (DESIGN.md section 4, "common vocabulary").

use crate::rng::Rng;
use serde_json::{json, Map, Value};

pub fn parse(t: &str) -> Value {
    serde_json::from_str(t).unwrap_or_else(|e| panic!("corpus text {:?}: {}", t, e))
}

/// The 35 operator names of the property statements.
pub const EAGER_OPS: [&str; 22] = [
    "==", "!=", "===", "!==", "!", "!!", "<", "<=", ">", ">=", "+", "-", "*", "/", "%", "max",
    "min", "merge", "in", "cat", "substr", "log",
];
pub const DATA_OPS: [&str; 3] = ["var", "missing", "missing_some"];
pub const LAZY_OPS: [&str; 10] = [
    "if", "?:", "or", "and", "map", "filter", "reduce", "all", "some", "none",
];
pub fn all_ops() -> Vec<&'static str> {
    let mut v: Vec<&'static str> = Vec::new();
    v.extend(EAGER_OPS.iter());
    v.extend(DATA_OPS.iter());
    v.extend(LAZY_OPS.iter());
    v
}

/// Numbers of V, as JSON texts (spelling matters).
pub const NUM_TEXTS: &[&str] = &[
    "0", "-0.0", "0.0", "1", "-1", "1.0", "1.5", "-1.5", "0.1", "0.5", "2", "3", "10", "16", "100",
    "2147483647", "2147483648", "-2147483648", "4294967296",
    "9007199254740991", "9007199254740992", "9007199254740993", "-9007199254740993",
    "9223372036854775807", "9223372036854775808", "18446744073709551615",
    "-9223372036854775808", "-9223372036854775807",
    "1e19", "-1e19", "1e21", "18446744073709551616.0", "9007199254740992.0", "9223372036854775806", "18446744073709551614", "1e-7", "5e-324", "1e-320", "1.7976931348623157e308",
    "-1.7976931348623157e308", "1e300", "1e308", "123456789.125", "0.30000000000000004",
];

/// Strings of V (Rust literals; not JSON texts).
pub const STR_VALUES: &[&str] = &[
    "", " ", "0", "-0", "+0", "1", "1.0", " 1 ", "\t1\n", "01", "1e3", "1e", "1e+", ".5", "5.",
    ".", "+", "-", "0x10", "0X1f", "0o17", "0b101", "-0x10", "0x", "Infinity", "+Infinity",
    "-Infinity", "infinity", "inf", "-inf", "INF", "nan", "NaN", "12px", "1-2", "1e5e5", "1.2.3",
    "1_000", "abc", "a", "b", "B", "true", "false", "null", "[object Object]", "1,2", ",", "é",
    "日本", "😀", "a😀b", "\u{FFFF}", "\u{10000}", "e\u{301}", "\u{0}", "\u{A0}1\u{A0}",
    "\u{2028}2\u{3000}", "\u{FEFF}12.5", "12.5\u{FEFF}", "\u{85}12.5", "12.5\u{85}", "\u{FEFF}", "\u{85}", "\u{FEFF}0x10\u{FEFF}", "\u{200B}1", "\u{180E}1", "\u{1680}7\u{205F}", "16", "10", "2", "1e1000", "-1e1000", "9007199254740993",
    "1.0000000000000000000000001", "0.1", "00", "- 1", "1 2", "١",
    "0x1000000000000081", "0x20000000000001", "0xffffffffffffffffffffffffffffffff", "0x1fffffffffffff8", "0x1fffffffffffffc", "0x+10", "0x-1", "0b+1", "0o+7", "0x 1", "0x1.8", "0x1p3", "0x1e3", "0x_1", "0X", "0b", "+0x10", "0x10000000000000000",
    "0x20000000000000", "0b10000000000000000000000000000000000000000000000000000000000000000", "0o2000000000000000000000", "1e+", "+.5e1", "-.5", "5.e1",
];

/// Container values of V, as JSON texts.
pub const CONTAINER_TEXTS: &[&str] = &[
    "[]", "[0]", "[1]", "[\"1\"]", "[1.0]", "[1.5]", "[null]", "[[]]", "[[1]]", "[1,2]",
    "[null,null]", "[\"a\",\"b\"]", "[true]", "[false]", "[{}]", "[\"\"]", "[\" 1 \"]", "[\"0x10\"]",
    "[[[]]]", "[16]", "[\"abc\"]", "[-1]", "[1e21]",
    "{}", "{\"a\":1}", "{\"a\":{\"b\":2}}", "{\"\":0}",
    "{\"var\":\"a\"}", "{\"+\":[1,2]}", "{\"log\":\"LEAK-0\"}", "{\"a\":1,\"var\":\"a\"}",
    "{\"if\":[true,1,2]}", "{\"Var\":\"a\"}", "{\"var \":\"a\"}",
];

pub fn v_numbers() -> Vec<Value> {
    NUM_TEXTS.iter().map(|t| parse(t)).collect()
}
pub fn v_strings() -> Vec<Value> {
    STR_VALUES.iter().map(|s| Value::String(s.to_string())).collect()
}
pub fn v_containers() -> Vec<Value> {
    CONTAINER_TEXTS.iter().map(|t| parse(t)).collect()
}
pub fn v_scalars() -> Vec<Value> {
    vec![Value::Null, Value::Bool(true), Value::Bool(false)]
}
/// The full value corpus V.
pub fn v_all() -> Vec<Value> {
    let mut v = v_scalars();
    v.extend(v_numbers());
    v.extend(v_strings());
    v.extend(v_containers());
    v
}
/// A smaller sub-corpus (about 40 values) used for triples / tuples.
pub fn v_small() -> Vec<Value> {
    let texts = [
        "null", "true", "false", "0", "-0.0", "1", "1.0", "-1", "1.5", "2", "16",
        "9007199254740993", "9223372036854775807", "1e300", "5e-324",
        "\"\"", "\" \"", "\"0\"", "\"1\"", "\" 1 \"", "\"0x10\"", "\"1e3\"", "\"abc\"", "\"a\"",
        "\"b\"", "\"Infinity\"", "\"inf\"", "\"12px\"", "\"é\"", "\"\u{10000}\"", "\"\u{FFFF}\"",
        "[]", "[0]", "[1]", "[\"1\"]", "[null]", "[1,2]", "[[1]]", "{}", "{\"a\":1}",
    ];
    texts.iter().map(|t| parse(t)).collect()
}

/// S: numeric-string grammar corpus: whitespace x sign x body x suffix.
pub fn s_numeric_strings() -> Vec<String> {
    let ws = ["", " ", "\t", "\n", "\u{A0}", "\u{3000}", " \r\n", "\u{FEFF}", "\u{85}"];
    let sign = ["", "+", "-"];
    let body = [
        "0", "1", "12", "007", "1.5", "1.", ".5", ".", "1e3", "1E3", "1e+3", "1e-3", "1e", "1e+",
        "1.e2", ".e2", "1.5e300", "1e400", "1e-400", "Infinity", "infinity", "inf", "Inf", "INFINITY",
        "nan", "NaN", "0x10", "0X1F", "0xg", "0x", "0o17", "0O8", "0b101", "0b2", "9007199254740993",
        "0x+10", "0x-10", "0b+1", "0o-7", "0x10000000000000000", "0x1.8", "0x1e3",
        "18446744073709551616", "1_0", "1,0", "", "0.0000001", "123456789012345678901234567890",
    ];
    let suffix = ["", " ", "\n", "px", "e", ".", "-", "+", " 1", "e5", "\u{A0}"];
    let mut out = Vec::new();
    for w in ws.iter() {
        for s in sign.iter() {
            for b in body.iter() {
                for x in suffix.iter() {
                    // keep the product, but thin the whitespace x suffix corner
                    if !w.is_empty() && x.len() > 1 && *x != "px" {
                        continue;
                    }
                    out.push(format!("{}{}{}{}", w, s, b, x));
                }
            }
        }
    }
    out.sort();
    out.dedup();
    out
}

/// Alphabet of U: 1-, 2-, 3-, 4-byte characters and a combining mark.
pub const U_ALPHA: [&str; 5] = ["a", "é", "日", "😀", "\u{301}"];

/// All strings over U_ALPHA of length 0..=maxlen.
pub fn u_strings(maxlen: usize) -> Vec<String> {
    let mut out = vec![String::new()];
    let mut frontier = vec![String::new()];
    for _ in 0..maxlen {
        let mut next = Vec::new();
        for s in frontier.iter() {
            for a in U_ALPHA.iter() {
                let mut t = s.clone();
                t.push_str(a);
                next.push(t);
            }
        }
        out.extend(next.iter().cloned());
        frontier = next;
    }
    out
}
pub fn u_random(r: &mut Rng, minlen: usize, maxlen: usize) -> String {
    let n = minlen + r.below(maxlen - minlen + 1);
    let mut s = String::new();
    for _ in 0..n {
        s.push_str(U_ALPHA[r.below(U_ALPHA.len())]);
    }
    s
}

/// Hostile object keys for D.
pub const D_KEYS: &[&str] = &[
    "a", "b", "c", "a.b", "a\\b", "0", "1", "-1", "", "é", "current", "accumulator", "var", "x",
    "secret", "items", "01", "+1", "a.b.c", "日",
];

/// Marker (operation-shaped) values planted in data for C04.
pub fn marker(r: &mut Rng, n: &mut u64) -> Value {
    *n += 1;
    match r.below(6) {
        0 => json!({ "log": format!("LEAK-{}", n) }),
        1 => json!({"var": "secret"}),
        2 => json!({"+": ["x"]}),
        3 => json!({"if": [true, {"log": format!("LEAK-{}", n)}, 2]}),
        4 => json!({"cat": ["LEAK-", {"var": "secret"}]}),
        _ => json!({"/": [1]}),
    }
}

pub fn rand_scalar(r: &mut Rng) -> Value {
    match r.below(10) {
        0 => Value::Null,
        1 => Value::Bool(r.chance(1, 2)),
        2 | 3 | 4 => {
            let nums = NUM_TEXTS;
            parse(nums[r.below(nums.len())])
        }
        5 => json!(r.range(-3, 12)),
        6 | 7 => Value::String(STR_VALUES[r.below(STR_VALUES.len())].to_string()),
        8 => Value::String(u_random(r, 0, 5)),
        _ => json!(r.range(-2, 3) as f64 + 0.5),
    }
}

/// D: a random data tree. `markers`: probability (out of 100) of planting an
/// operation-shaped marker at a leaf.
pub fn rand_data(r: &mut Rng, depth: usize, markers: u32, mk: &mut u64) -> Value {
    if depth == 0 || r.chance(3, 10) {
        if markers > 0 && r.chance(markers, 100) {
            return marker(r, mk);
        }
        return rand_scalar(r);
    }
    if r.chance(1, 2) {
        let n = r.below(5);
        let mut m = Map::new();
        for _ in 0..n {
            let k = D_KEYS[r.below(D_KEYS.len())].to_string();
            m.insert(k, rand_data(r, depth - 1, markers, mk));
        }
        Value::Object(m)
    } else {
        let n = r.below(5);
        Value::Array((0..n).map(|_| rand_data(r, depth - 1, markers, mk)).collect())
    }
}

/// A random literal JSON value (no intent of being a rule), depth-bounded.
pub fn rand_value(r: &mut Rng, depth: usize) -> Value {
    if depth == 0 || r.chance(1, 2) {
        return rand_scalar(r);
    }
    match r.below(4) {
        0 => {
            let c = CONTAINER_TEXTS;
            parse(c[r.below(c.len())])
        }
        1 => {
            let n = r.below(4);
            let mut m = Map::new();
            for _ in 0..n {
                m.insert(D_KEYS[r.below(D_KEYS.len())].to_string(), rand_value(r, depth - 1));
            }
            Value::Object(m)
        }
        _ => {
            let n = r.below(4);
            Value::Array((0..n).map(|_| rand_value(r, depth - 1)).collect())
        }
    }
}

/// Escape a key so that it is one `var` path segment.
pub fn escape_seg(k: &str) -> String {
    let mut s = String::new();
    for c in k.chars() {
        if c == '.' || c == '\\' {
            s.push('\\');
        }
        s.push(c);
    }
    s
}

/// All (path segments, node) pairs of a data tree; segments are raw keys / indices.
pub fn all_paths(d: &Value) -> Vec<(Vec<String>, Value)> {
    fn go(d: &Value, pre: &mut Vec<String>, out: &mut Vec<(Vec<String>, Value)>) {
        if !pre.is_empty() {
            out.push((pre.clone(), d.clone()));
        }
        match d {
            Value::Object(m) => {
                for (k, v) in m.iter() {
                    pre.push(k.clone());
                    go(v, pre, out);
                    pre.pop();
                }
            }
            Value::Array(a) => {
                for (i, v) in a.iter().enumerate() {
                    pre.push(i.to_string());
                    go(v, pre, out);
                    pre.pop();
                }
            }
            _ => {}
        }
    }
    let mut out = Vec::new();
    go(d, &mut Vec::new(), &mut out);
    out
}

/// Random `var` path string that may or may not resolve in `d`.
pub fn rand_path(r: &mut Rng, d: &Value) -> String {
    let paths = all_paths(d);
    if !paths.is_empty() && r.chance(7, 10) {
        let (segs, _) = &paths[r.below(paths.len())];
        let mut segs = segs.clone();
        if r.chance(1, 4) {
            // perturb one segment
            let i = r.below(segs.len());
            segs[i] = match r.below(4) {
                0 => "zz".to_string(),
                1 => r.range(-4, 4).to_string(),
                2 => D_KEYS[r.below(D_KEYS.len())].to_string(),
                _ => format!("{}x", segs[i]),
            };
        }
        segs.iter().map(|s| escape_seg(s)).collect::<Vec<_>>().join(".")
    } else {
        let n = 1 + r.below(3);
        (0..n)
            .map(|_| {
                if r.chance(1, 3) {
                    r.range(-3, 3).to_string()
                } else {
                    escape_seg(D_KEYS[r.below(D_KEYS.len())])
                }
            })
            .collect::<Vec<_>>()
            .join(".")
    }
}

pub struct RuleGen {
    pub probe: u64,
    /// probability (percent) that a leaf is a `log` probe wrapper
    pub probes: u32,
    /// probability (percent) of a poisoned leaf
    pub poison: u32,
    /// probability (percent) that an operand is replaced by a textual copy of a sibling operand
    /// (common-subexpression "optimisations" only show on duplicated subtrees that log or fail)
    pub dup: u32,
    pub ops: Vec<&'static str>,
}

impl RuleGen {
    pub fn new() -> RuleGen {
        RuleGen { probe: 0, probes: 5, poison: 3, dup: 8, ops: all_ops() }
    }
    pub fn uprobe(&mut self) -> Value {
        self.probe += 1;
        json!({ "log": format!("p{}", self.probe) })
    }
    pub fn leaf(&mut self, r: &mut Rng, d: &Value) -> Value {
        let x = r.below(100) as u32;
        if x < self.probes {
            return self.uprobe();
        }
        if x < self.probes + self.poison {
            return match r.below(3) {
                0 => json!({"/": [1]}),
                1 => json!({"+": ["x"]}),
                _ => json!({"in": ["a", 5]}),
            };
        }
        if r.chance(2, 5) {
            let p = rand_path(r, d);
            if r.chance(1, 5) {
                // the default: mostly a constant, sometimes an expression that logs or fails
                let dflt = match r.below(10) {
                    0 | 1 => self.uprobe(),
                    2 => json!({"/": [1]}),
                    _ => rand_scalar(r),
                };
                json!({"var": [p, dflt]})
            } else {
                json!({ "var": p })
            }
        } else {
            let v = rand_value(r, 1);
            // a literal that happens to be operation-shaped would be a rule here; keep as is
            v
        }
    }
    /// Random rule tree T(depth, width) against data `d`.
    pub fn rule(&mut self, r: &mut Rng, d: &Value, depth: usize, width: usize) -> Value {
        if depth == 0 || r.chance(1, 4) {
            return self.leaf(r, d);
        }
        let op = *r.pick(&self.ops);
        let n = match op {
            "==" | "!=" | "===" | "!==" | "/" | "%" | "in" | "missing_some" => 2,
            "!" | "!!" | "log" => 1,
            "<" | "<=" | ">" | ">=" | "substr" => 2 + r.below(2),
            "-" => 1 + r.below(2),
            "var" => 1 + r.below(2),
            "map" | "filter" | "all" | "some" | "none" => 2,
            "reduce" => 3,
            "if" | "?:" => r.below(width.max(1) + 2),
            _ => 1 + r.below(width.max(1)),
        };
        // occasionally a wrong count
        let n = if r.chance(1, 60) { r.below(5) } else { n };
        let mut args: Vec<Value> = Vec::new();
        match op {
            "map" | "filter" | "all" | "some" | "none" | "reduce" if n >= 2 => {
                // collection
                let coll = if r.chance(1, 2) {
                    let k = r.below(4);
                    Value::Array((0..k).map(|_| self.rule(r, d, depth - 1, width)).collect())
                } else {
                    self.rule(r, d, depth - 1, width)
                };
                args.push(coll);
                // expression over the element scope
                let scope = if op == "reduce" {
                    json!({"current": rand_scalar(r), "accumulator": rand_scalar(r)})
                } else {
                    rand_value(r, 1)
                };
                args.push(self.rule(r, &scope, depth - 1, width));
                for _ in 2..n {
                    args.push(self.rule(r, d, depth - 1, width));
                }
            }
            "substr" => {
                args.push(if r.chance(3, 4) {
                    Value::String(u_random(r, 0, 6))
                } else {
                    self.rule(r, d, depth - 1, width)
                });
                for _ in 1..n {
                    args.push(if r.chance(4, 5) { json!(r.range(-7, 7)) } else { self.rule(r, d, depth - 1, width) });
                }
            }
            "missing_some" if n == 2 => {
                args.push(json!(r.below(4)));
                let k = r.below(4);
                args.push(Value::Array((0..k).map(|_| Value::String(rand_path(r, d))).collect()));
            }
            "missing" => {
                for _ in 0..n {
                    args.push(Value::String(rand_path(r, d)));
                }
            }
            "var" if n >= 1 => {
                args.push(if r.chance(4, 5) { Value::String(rand_path(r, d)) } else { self.rule(r, d, depth - 1, width) });
                for _ in 1..n {
                    args.push(self.rule(r, d, depth - 1, width));
                }
            }
            _ => {
                for _ in 0..n {
                    args.push(self.rule(r, d, depth - 1, width));
                }
            }
        }
        if args.len() >= 2 && (r.below(100) as u32) < self.dup {
            let from = r.below(args.len());
            let to = if r.chance(1, 2) { (from + 1) % args.len() } else { r.below(args.len()) };
            if from != to {
                args[to] = args[from].clone();
            }
        }
        let mut m = Map::new();
        if n == 1 && !args[0].is_array() && r.chance(1, 3) {
            m.insert(op.to_string(), args.pop().unwrap());
        } else {
            m.insert(op.to_string(), Value::Array(args));
        }
        Value::Object(m)
    }
}
