//! Monitor-owned counting allocator (C17 heap-conservation / allocation-determinism monitor,
//! C01 step statistic). Counts only; never remembers addresses, so leak detectors are not
//! blinded. Compiled out in the sanitizer / Miri lanes (feature `countalloc` off).

#[cfg(feature = "countalloc")]
mod imp {
    use std::alloc::{GlobalAlloc, Layout, System};
    use std::cell::Cell;

    pub struct Counting;

    thread_local! {
        // per-thread counters: (allocations, live bytes delta)
        pub static ALLOCS: Cell<u64> = const { Cell::new(0) };
        pub static LIVE: Cell<i64> = const { Cell::new(0) };
    }

    unsafe impl GlobalAlloc for Counting {
        unsafe fn alloc(&self, l: Layout) -> *mut u8 {
            let _ = ALLOCS.try_with(|c| c.set(c.get() + 1));
            let _ = LIVE.try_with(|c| c.set(c.get() + l.size() as i64));
            System.alloc(l)
        }
        unsafe fn dealloc(&self, p: *mut u8, l: Layout) {
            let _ = LIVE.try_with(|c| c.set(c.get() - l.size() as i64));
            System.dealloc(p, l)
        }
        unsafe fn realloc(&self, p: *mut u8, l: Layout, new: usize) -> *mut u8 {
            let _ = ALLOCS.try_with(|c| c.set(c.get() + 1));
            let _ = LIVE.try_with(|c| c.set(c.get() + new as i64 - l.size() as i64));
            System.realloc(p, l, new)
        }
    }

    #[global_allocator]
    static GLOBAL: Counting = Counting;

    pub fn snapshot() -> (u64, i64) {
        (ALLOCS.with(|c| c.get()), LIVE.with(|c| c.get()))
    }
    pub const ENABLED: bool = true;
}

#[cfg(not(feature = "countalloc"))]
mod imp {
    pub fn snapshot() -> (u64, i64) {
        (0, 0)
    }
    pub const ENABLED: bool = false;
}

/// (allocations so far on this thread, net live bytes allocated by this thread)
pub fn snapshot() -> (u64, i64) {
    imp::snapshot()
}
pub fn enabled() -> bool {
    imp::ENABLED
}
