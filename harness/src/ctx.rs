//! Monitor context: counters, coverage cells, violation records, samples, and the generic
//! differential judge (real outcome + log trace vs. the reference model).

use crate::observe::{self, Obs, Outcome};
use crate::refsem::{self, MOut, Trace};
use crate::rng::{hash_str, Rng};
use serde_json::{json, Map, Value};
use std::collections::{BTreeMap, HashMap, HashSet};

#[derive(Default, Clone)]
pub struct MonStat {
    pub observed: u64,
    pub judged: u64,
    pub unjudged: u64,
    pub violations: u64,
}

#[derive(Clone)]
pub struct Violation {
    pub monitor: String,
    pub sig: String,
    pub rule: Value,
    pub data: Value,
    pub expected: Value,
    pub got: Value,
    pub note: String,
    pub count: u64,
    pub extra: Value,
}

pub struct Ctx {
    pub pid: String,
    pub tier: String,
    pub seed: u64,
    pub shard: u64,
    pub nshards: u64,
    pub lane: String,
    pub scale: f64,
    /// interpreter-speed lanes (Miri): shrink fixed parts of workloads too
    pub small: bool,
    pub rng: Rng,
    pub evaluations: u64,
    pub nontrivial: HashSet<u64>,
    pub nontrivial_total: u64,
    pub cells: BTreeMap<String, u64>,
    pub mons: BTreeMap<String, MonStat>,
    pub unj_reasons: BTreeMap<String, u64>,
    pub violations: Vec<Violation>,
    vio_idx: HashMap<String, usize>,
    pub samples: Vec<Value>,
    pub log_lines_matched: u64,
    pub log_calls_checked: u64,
    pub panics_on_unjudged: u64,
    pub extra: Map<String, Value>,
    pub trace_calls: bool,
    pub model_steps: u64,
    pub exhaustive_parts: Vec<String>,
    /// a sample of calls whose outcome agreed with the model (rule, data, outcome key): replayed
    /// concurrently at the end of the run (props_c17::concurrent_replay)
    pub replay_pool: Vec<(Value, Value, String)>,
    replay_seen: u64,
}

pub const REPLAY_POOL_MAX: usize = 2500;

pub fn outcome_key_plain(o: &Outcome) -> String {
    match o {
        Outcome::Ok(v) => format!("ok:{}", v),
        Outcome::Err(_) => "err".to_string(),
        Outcome::Panic(_) => "panic".to_string(),
    }
}

pub fn type_name(v: &Value) -> &'static str {
    match v {
        Value::Null => "null",
        Value::Bool(_) => "bool",
        Value::Number(_) => "number",
        Value::String(_) => "string",
        Value::Array(_) => "array",
        Value::Object(_) => "object",
    }
}

pub fn top_op(rule: &Value) -> String {
    match refsem::as_op(rule) {
        Some((op, _)) => op.to_string(),
        None => format!("literal-{}", type_name(rule)),
    }
}

impl Ctx {
    pub fn new(pid: &str, tier: &str, seed: u64, shard: u64, nshards: u64, lane: &str) -> Ctx {
        let scale = std::env::var("JL_SCALE").ok().and_then(|s| s.parse::<f64>().ok()).unwrap_or(1.0);
        Ctx {
            pid: pid.to_string(),
            tier: tier.to_string(),
            seed,
            shard,
            nshards,
            lane: lane.to_string(),
            scale,
            small: cfg!(miri),
            rng: Rng::from_parts(seed, pid, shard),
            evaluations: 0,
            nontrivial: HashSet::new(),
            nontrivial_total: 0,
            cells: BTreeMap::new(),
            mons: BTreeMap::new(),
            unj_reasons: BTreeMap::new(),
            violations: Vec::new(),
            vio_idx: HashMap::new(),
            samples: Vec::new(),
            log_lines_matched: 0,
            log_calls_checked: 0,
            panics_on_unjudged: 0,
            extra: Map::new(),
            trace_calls: std::env::var("JL_TRACE").is_ok(),
            model_steps: 0,
            exhaustive_parts: Vec::new(),
            replay_pool: Vec::new(),
            replay_seen: 0,
        }
    }

    pub fn thorough(&self) -> bool {
        self.tier == "thorough"
    }

    /// Number of random cases for this shard: `quick` in the quick tier, `thorough` in the
    /// thorough tier, scaled by JL_SCALE (Miri / sanitizer lanes use a small scale).
    pub fn budget(&self, quick: u64, thorough: u64) -> u64 {
        let b = if self.thorough() { thorough } else { quick };
        ((b as f64) * self.scale).ceil() as u64
    }

    /// Is item `i` of an enumerated workload mine?
    pub fn mine(&self, i: u64) -> bool {
        i % self.nshards == self.shard
    }

    pub fn cell(&mut self, name: &str) {
        *self.cells.entry(name.to_string()).or_insert(0) += 1;
    }
    pub fn cell_n(&mut self, name: &str, n: u64) {
        *self.cells.entry(name.to_string()).or_insert(0) += n;
    }

    pub fn mon(&mut self, name: &str) -> &mut MonStat {
        self.mons.entry(name.to_string()).or_default()
    }

    pub fn mark_nontrivial(&mut self, rule: &Value, data: &Value) {
        self.nontrivial_total += 1;
        if self.nontrivial.len() < 60_000 {
            let h = hash_str(&rule.to_string()) ^ hash_str(&data.to_string()).rotate_left(31);
            self.nontrivial.insert(h);
        }
    }
    pub fn mark_nontrivial_key(&mut self, key: &str) {
        self.nontrivial_total += 1;
        if self.nontrivial.len() < 60_000 {
            self.nontrivial.insert(hash_str(key));
        }
    }

    pub fn sample(&mut self, v: Value) {
        if self.samples.len() < 6 {
            self.samples.push(v);
        } else if self.rng.clone().chance(1, 2000) {
            // deterministic thinning without disturbing the workload stream
            let i = (self.evaluations % 6) as usize;
            self.samples[i] = v;
        }
    }

    pub fn violation(
        &mut self,
        monitor: &str,
        sig: &str,
        rule: &Value,
        data: &Value,
        expected: Value,
        got: Value,
        note: &str,
    ) {
        self.violation_x(monitor, sig, rule, data, expected, got, note, Value::Null)
    }

    pub fn violation_x(
        &mut self,
        monitor: &str,
        sig: &str,
        rule: &Value,
        data: &Value,
        expected: Value,
        got: Value,
        note: &str,
        extra: Value,
    ) {
        self.mon(monitor).violations += 1;
        let key = format!("{}|{}", monitor, sig);
        // values nested deeper than a JSON reader accepts never go into a report
        let (rule_s, data_s) = (shallow(rule), shallow(data));
        let (rule, data) = (&rule_s, &data_s);
        let (expected, got) = (shallow(&expected), shallow(&got));
        let size = rule.to_string().len() + data.to_string().len();
        if let Some(&i) = self.vio_idx.get(&key) {
            let v = &mut self.violations[i];
            v.count += 1;
            let vs = v.rule.to_string().len() + v.data.to_string().len();
            if size < vs {
                v.rule = rule.clone();
                v.data = data.clone();
                v.expected = expected;
                v.got = got;
                v.note = note.to_string();
                v.extra = extra;
            }
            return;
        }
        if self.violations.len() >= 400 {
            return;
        }
        self.vio_idx.insert(key, self.violations.len());
        self.violations.push(Violation {
            monitor: monitor.to_string(),
            sig: sig.to_string(),
            rule: rule.clone(),
            data: data.clone(),
            expected,
            got,
            note: note.to_string(),
            count: 1,
            extra,
        });
    }

    /// Observe the real code on (rule, data). Counts one evaluation.
    pub fn observe(&mut self, rule: &Value, data: &Value) -> Obs {
        self.evaluations += 1;
        if self.trace_calls {
            eprintln!("@@CALL {} {} {}", self.evaluations, rule, data);
        }
        observe::wd_arm(rule, data);
        let o = observe::observe(rule, data);
        observe::wd_disarm();
        if self.trace_calls {
            eprintln!("@@RET {}", self.evaluations);
        }
        if observe::errcap_active() {
            let m = self.mon("c17.stderr-silent");
            m.observed += 1;
            m.judged += 1;
            if !o.errs.is_empty() {
                let got: String = o.errs.chars().take(300).collect();
                self.violation("c17.stderr-silent", &format!("stderr-write:{}", top_op(rule)), rule, data, json!("nothing written to fd 2 during the call"), json!({"stderr": got, "outcome": o.out.brief()}), "an evaluation wrote to standard error: an externally visible effect other than the line of an evaluated `log`");
            }
        }
        o
    }

    /// The generic differential judge. Returns the observation and the model outcome.
    pub fn check(&mut self, monitor: &str, rule: &Value, data: &Value) -> (Obs, MOut) {
        let obs = self.observe(rule, data);
        let (mo, tr) = refsem::model(rule, data);
        self.model_steps += tr.steps;
        self.judge(monitor, rule, data, &obs, &mo, &tr);
        (obs, mo)
    }

    pub fn judge(&mut self, monitor: &str, rule: &Value, data: &Value, obs: &Obs, mo: &MOut, tr: &Trace) {
        let op = top_op(rule);
        self.mon(monitor).observed += 1;
        match (mo, &obs.out) {
            (MOut::Unj(r), out) => {
                self.mon(monitor).unjudged += 1;
                *self.unj_reasons.entry(r.to_string()).or_insert(0) += 1;
                if let Outcome::Panic(_) = out {
                    // left to C01 (every property's run reports the count)
                    self.panics_on_unjudged += 1;
                }
                return;
            }
            (_, Outcome::Panic(p)) => {
                self.mon(monitor).judged += 1;
                let site = p.rsplit(" @ ").next().unwrap_or("").to_string();
                self.violation(
                    monitor,
                    &format!("panic:{}:{}", op, site),
                    rule,
                    data,
                    model_json(mo),
                    obs.out.brief(),
                    "the property promises a value or an error here; the call panicked",
                );
                return;
            }
            (MOut::Val(w), Outcome::Ok(g)) => {
                self.mon(monitor).judged += 1;
                if !refsem::value_equiv(g, w) {
                    let sig = format!("value:{}:{}", op, operand_types(rule, data));
                    self.violation(monitor, &sig, rule, data, model_json(mo), obs.out.brief(), "result differs from the reference semantics");
                    return;
                }
                self.remember_for_replay(rule, data, &obs.out);
            }
            (MOut::Val(_), Outcome::Err(_)) => {
                self.mon(monitor).judged += 1;
                let sig = format!("err-for-value:{}:{}", op, operand_types(rule, data));
                self.violation(monitor, &sig, rule, data, model_json(mo), obs.out.brief(), "error returned where the statements determine a value");
                return;
            }
            (MOut::Err, Outcome::Ok(_)) => {
                self.mon(monitor).judged += 1;
                let sig = format!("value-for-err:{}:{}", op, operand_types(rule, data));
                self.violation(monitor, &sig, rule, data, model_json(mo), obs.out.brief(), "value returned where the statements demand an error");
                return;
            }
            (MOut::Err, Outcome::Err(_)) => {
                self.mon(monitor).judged += 1;
                self.remember_for_replay(rule, data, &obs.out);
            }
        }
        // ---- effect (log trace) judgement
        if !observe::capture_active() {
            return;
        }
        self.log_calls_checked += 1;
        let is_ok = matches!(obs.out, Outcome::Ok(_));
        let problem = trace_problem(&obs.logs, tr, is_ok);
        match problem {
            None => self.log_lines_matched += obs.logs.len() as u64,
            Some(kind) => {
                let sig = format!("trace-{}:{}", kind, op);
                let exp = json!({
                    "required_or_optional": tr.evs.iter().map(|e| json!({"line": e.line, "optional": e.optional})).collect::<Vec<_>>(),
                    "order_known": tr.order_known, "outcome": model_json(mo)});
                self.violation(monitor, &sig, rule, data, exp, json!({"lines": obs.logs, "outcome": obs.out.brief()}),
                    "log lines printed by the call differ from what the statements allow");
            }
        }
    }

    /// Reservoir sample (deterministic in the seed) of small judged-and-agreeing calls.
    pub fn remember_for_replay(&mut self, rule: &Value, data: &Value, out: &Outcome) {
        self.replay_seen += 1;
        let n = self.replay_seen;
        // cheap pre-filter before any text is produced: a 1-in-k thinning once the pool is full
        if self.replay_pool.len() >= REPLAY_POOL_MAX {
            let h = n.wrapping_mul(0x9E3779B97F4A7C15) ^ self.seed;
            if (h >> 20) % (n / REPLAY_POOL_MAX as u64 + 1) != 0 {
                return;
            }
        }
        if refsem::nested_deeper_than(rule, 40) || refsem::nested_deeper_than(data, 40) {
            return;
        }
        let key = outcome_key_plain(out);
        if key.len() > 4096 {
            return;
        }
        let rt = rule.to_string();
        if rt.len() + data.to_string().len() > 6000 || rt.contains("\"log\"") {
            return;
        }
        if self.replay_pool.len() < REPLAY_POOL_MAX {
            self.replay_pool.push((rule.clone(), data.clone(), key));
        } else {
            let slot = (n.wrapping_mul(0xD1B54A32D192ED03) >> 11) as usize % REPLAY_POOL_MAX;
            self.replay_pool[slot] = (rule.clone(), data.clone(), key);
        }
    }

    pub fn report(&self) -> Value {
        let mons: Map<String, Value> = self
            .mons
            .iter()
            .map(|(k, m)| {
                (k.clone(), json!({"observed": m.observed, "judged": m.judged, "unjudged": m.unjudged, "violations": m.violations}))
            })
            .collect();
        let mut hashes: Vec<u64> = self.nontrivial.iter().cloned().collect();
        hashes.sort();
        if hashes.len() > 60_000 {
            hashes.truncate(60_000);
        }
        json!({
            "property": self.pid, "tier": self.tier, "seed": self.seed, "shard": self.shard, "nshards": self.nshards,
            "lane": self.lane,
            "evaluations": self.evaluations,
            "nontrivial_total": self.nontrivial_total,
            "nontrivial_hashes": hashes.iter().map(|h| format!("{:x}", h)).collect::<Vec<_>>(),
            "cells": self.cells,
            "monitors": mons,
            "unjudged_reasons": self.unj_reasons,
            "violations": self.violations.iter().map(|v| json!({
                "monitor": v.monitor, "sig": v.sig, "rule": v.rule, "data": v.data, "expected": v.expected,
                "got": v.got, "note": v.note, "count": v.count, "extra": v.extra})).collect::<Vec<_>>(),
            "samples": self.samples,
            "log_lines_matched": self.log_lines_matched,
            "log_calls_checked": self.log_calls_checked,
            "panics_on_unjudged": self.panics_on_unjudged,
            "model_steps": self.model_steps,
            "exhaustive_parts": self.exhaustive_parts,
            "extra": self.extra,
        })
    }
}

pub fn model_json(m: &MOut) -> Value {
    match m {
        MOut::Val(v) => json!({ "ok": v }),
        MOut::Err => json!({"err": "an error (any message)"}),
        MOut::Unj(r) => json!({ "unjudged": r }),
    }
}

/// Type signature of the (evaluated-literal) operands, for grouping violations.
fn operand_types(rule: &Value, data: &Value) -> String {
    match refsem::as_op(rule) {
        Some((_, Value::Array(xs))) => xs
            .iter()
            .take(3)
            .map(|x| {
                // resolve simple {var: k} operands so that type-pair classes are meaningful
                let mut t = refsem::Trace::new();
                match refsem::as_op(x) {
                    Some(("var", _)) => match refsem::eval(x, data, &mut t) {
                        MOut::Val(v) => type_name(&v).to_string(),
                        _ => "expr".to_string(),
                    },
                    Some(_) => "expr".to_string(),
                    None => type_name(x).to_string(),
                }
            })
            .collect::<Vec<_>>()
            .join(","),
        Some((_, x)) => type_name(x).to_string(),
        None => String::new(),
    }
}

fn multiset(xs: &[&str]) -> BTreeMap<String, i64> {
    let mut m = BTreeMap::new();
    for x in xs {
        *m.entry(x.to_string()).or_insert(0) += 1;
    }
    m
}

/// Compare observed log lines with the model's trace. `None` = consistent.
pub fn trace_problem(obs: &[String], tr: &Trace, outcome_ok: bool) -> Option<&'static str> {
    let o: Vec<&str> = obs.iter().map(|s| s.as_str()).collect();
    let all: Vec<&str> = tr.evs.iter().map(|e| e.line.as_str()).collect();
    let req = tr.required();
    let mo = multiset(&o);
    let mall = multiset(&all);
    // nothing may be printed that the model does not allow
    for (k, n) in mo.iter() {
        if mall.get(k).cloned().unwrap_or(0) < *n {
            return Some("unexpected-line");
        }
    }
    if !outcome_ok {
        // an erroring call may stop anywhere: only "no line from a forbidden operand"
        return None;
    }
    let mreq = multiset(&req);
    for (k, n) in mreq.iter() {
        if mo.get(k).cloned().unwrap_or(0) < *n {
            return Some("missing-line");
        }
    }
    if tr.order_known {
        if !tr.has_optional() && o != req {
            return Some("order");
        }
        // required lines must appear, in the model's order, as a subsequence
        let mut it = o.iter();
        for r in req.iter() {
            if !it.any(|x| x == r) {
                return Some("order");
            }
        }
    }
    None
}

/// A stand-in for values nested deeper than 100 levels (reports are read back by JSON parsers with
/// recursion limits): the depth class and the beginning of the text.
pub fn shallow(v: &Value) -> Value {
    if !refsem::nested_deeper_than(v, 100) {
        return v.clone();
    }
    let mut depth = 100usize;
    for d in [127usize, 128, 200, 300, 512, 600, 1000, 1024, 2048, 3000, 5000, 10000] {
        if refsem::nested_deeper_than(v, d) {
            depth = d;
        }
    }
    // the text is produced iteratively (no recursion): a prefix is enough to recognise the case
    let mut text = String::new();
    let mut cur = v;
    for _ in 0..40 {
        match cur {
            Value::Array(a) if !a.is_empty() => {
                text.push('[');
                cur = a.iter().find(|x| x.is_array() || x.is_object()).unwrap_or(&a[0]);
            }
            Value::Object(m) if !m.is_empty() => {
                let (k, x) = m.iter().find(|(_, x)| x.is_array() || x.is_object()).unwrap_or_else(|| m.iter().next().unwrap());
                text.push_str(&format!("{{{:?}:", k));
                cur = x;
            }
            other => {
                if !other.is_array() && !other.is_object() {
                    text.push_str(&other.to_string());
                }
                break;
            }
        }
    }
    json!({"<value nested deeper than>": depth, "text begins": text})
}
