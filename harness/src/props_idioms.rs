//! Everyday rule idioms filled with hostile values. An optimisation is usually written for an idiom
//! (the sum fold, the append fold, the pluck, the switch ladder, the range check) and tested on
//! everyday values; the hostile corpus, on the other hand, meets operators one at a time. Here the
//! two are multiplied: every idiom over every hostile operand list, judged against the model.

use crate::corpus::*;
use crate::ctx::Ctx;
use serde_json::{json, Value};

fn p(t: &str) -> Value {
    serde_json::from_str(t).unwrap()
}

/// Operand lists for folds and maps: numbers around 2^53 / 2^63 / 2^64, fractions that do not add
/// exactly, numeric strings, nulls, booleans, nested arrays, look-alikes; lengths on both sides of 16.
fn lists() -> Vec<Value> {
    let mut v: Vec<Value> = [
        "[]", "[1]", "[1,2,3]", "[9007199254740992,1,1]", "[1,1,9007199254740992]", "[9007199254740993,0]", "[9223372036854775807,1]", "[9223372036854775807,9223372036854775807]", "[18446744073709551615,1]",
        "[-9223372036854775808,-1]", "[4611686018427387904,4611686018427387904]", "[3037000500,3037000500]", "[0.1,0.2,0.3]", "[1e308,1e308]", "[-0.0,0]", "[1,2.5]", "[1.0,2.0]", "[\"1\",2]", "[\"1\",\"2\"]", "[\"a\",\"b\"]",
        "[\"a\",null,\"b\"]", "[null]", "[null,null]", "[1,null]", "[true,2]", "[false]", "[[1],[2]]", "[[1,2],[3]]", "[[],[]]", "[{},1]", "[\"\",\"x\"]", "[\"12px\",1]", "[\" 1 \",1]", "[\"0x10\",1]", "[1,\"x\"]", "[\"\\u00e9\",\"\\ud83d\\ude00\"]",
        "[0,\"0\",false,\"false\",null,\"null\",[],\"\"]", "[5e-324,5e-324]", "[1e21,1]", "[123456789012345678,1]",
    ].iter().map(|t| p(t)).collect();
    for n in [15usize, 16, 17, 33, 100] {
        v.push(Value::Array((0..n).map(|i| json!(i as i64 + 9007199254740980)).collect()));
        v.push(Value::Array((0..n).map(|i| if i % 5 == 3 { Value::Null } else { json!(format!("s{}", i)) }).collect()));
        v.push(Value::Array((0..n).map(|i| json!(0.1 * (i as f64))).collect()));
    }
    v
}

/// Records for plucks, filters and quantifiers: differing per row, with absent / null / nested fields,
/// rows that are not objects; lengths on both sides of 16.
fn tables() -> Vec<Value> {
    let row = |i: usize| -> Value {
        match i % 7 {
            0 => json!({"name": format!("n{}", i), "email": format!("e{}@x", i), "phone": null, "age": i, "tags": ["a", i], "addr": {"city": "c", "zip": i}}),
            1 => json!({"name": "", "email": null, "phone": format!("+{}", i), "age": (i as f64) + 0.5, "tags": []}),
            2 => json!({"name": null, "age": "17", "tags": [null], "addr": {"city": null}}),
            3 => json!({"email": "", "phone": "", "age": 0, "name": "zero"}),
            4 => json!({"name": "n", "email": "e", "phone": "p", "age": -1, "addr": {"city": "k", "zip": "00" }}),
            5 => json!({"name": [1], "age": null, "email": 0, "phone": false}),
            _ => json!({"name": "last", "age": 9007199254740993i64, "email": "x", "tags": ["a"]}),
        }
    };
    let mut v = Vec::new();
    for n in [0usize, 1, 3, 7, 15, 16, 17, 40] {
        v.push(Value::Array((0..n).map(row).collect()));
    }
    // rows that are not records
    v.push(json!([{"name": "a"}, "str", [1, 2], null, 5, {"name": "b"}, true, {"name": null}, {}, "xy", [], {"name": "c"}, 1.5, {"name": ""}, "z", {"name": 0}, {"name": "d"}, [["n"]]]));
    v.push(json!(["ab", "cd", "\u{e9}\u{1F600}", "", "x", "name", "0", "ab", "cd", "ef", "gh", "ij", "kl", "mn", "op", "qr", "st"]));
    v.push(json!([[1, 2], [3], [], [4, 5, 6], [null], [[7]], ["a"], [0], [1], [2], [3], [4], [5], [6], [7], [8], [9]]));
    v
}

pub fn idioms(ctx: &mut Ctx, monitor: &str, kinds: &[&str]) {
    let want = |k: &str| kinds.is_empty() || kinds.contains(&k);
    let cur = json!({"var": "current"});
    let acc = json!({"var": "accumulator"});
    let mut idx = 0u64;
    // ---- folds -------------------------------------------------------------------------------
    if want("fold") {
        let inits: Vec<Value> = vec![json!(0), json!(1), json!(0.0), json!(""), json!("id:"), json!([]), json!(null), json!(9007199254740992i64), json!("0")];
        let steps: Vec<Value> = vec![
            json!({"+": [cur, acc]}), json!({"+": [acc, cur]}), json!({"*": [cur, acc]}), json!({"-": [acc, cur]}), json!({"max": [cur, acc]}), json!({"min": [acc, cur]}), json!({"+": [acc, 1]}),
            json!({"cat": [acc, cur]}), json!({"cat": [cur, acc]}), json!({"cat": [acc, ",", cur]}), json!({"merge": [acc, cur]}), json!({"merge": [acc, [cur]]}), json!({"if": [{">": [cur, acc]}, cur, acc]}),
            json!({"+": [acc, {"if": [cur, 1, 0]}]}), json!({"and": [acc, cur]}), json!({"or": [acc, cur]}), json!({"+": [{"var": ["current", 0]}, {"var": ["accumulator", 0]}]}),
        ];
        for l in lists().iter() {
            for st in steps.iter() {
                idx += 1;
                if !ctx.mine(idx) {
                    continue;
                }
                for init in inits.iter() {
                    for rule in [json!({"reduce": [{"var": "xs"}, st, init]}), json!({"reduce": [l, st, init]})] {
                        ctx.check(monitor, &rule, &json!({ "xs": l }));
                    }
                }
                ctx.cell("idiom:fold");
            }
        }
    }
    // ---- per-row expressions -------------------------------------------------------------------
    if want("rows") {
        let exprs: Vec<Value> = vec![
            json!({"var": "name"}), json!({"var": "addr.city"}), json!({"var": ["email", "none"]}), json!({"var": 0}), json!({"var": "tags.0"}), json!({"var": ""}), json!({"var": "name.0"}),
            json!({"some": [[{"var": "email"}, {"var": "phone"}], {"var": ""}]}), json!({"all": [[{"var": "name"}, {"var": "age"}], {"var": ""}]}), json!({"none": [[{"var": "email"}], {"var": ""}]}),
            json!({"missing": ["name", "email"]}), json!({"missing_some": [1, ["email", "phone"]]}), json!({"!": [{"missing": ["age"]}]}), json!({"cat": [{"var": "name"}, " <", {"var": "email"}, ">"]}),
            json!({">=": [{"var": "age"}, 18]}), json!({"<": [0, {"var": "age"}, 100]}), json!({"+": [{"var": "age"}, 1]}), json!({"in": ["a", {"var": "tags"}]}), json!({"in": [{"var": "name"}, ["n0", "n", "last", ""]]}),
            json!({"if": [{"var": "email"}, {"var": "email"}, {"var": "phone"}, {"var": "phone"}, "unreachable?"]}), json!({"and": [{"var": "name"}, {"var": "age"}]}), json!({"or": [{"var": "email"}, {"var": "phone"}, "-"]}),
            json!({"===": [{"var": "age"}, 0]}), json!({"==": [{"var": "age"}, "17"]}), json!({"substr": [{"var": "name"}, 0, 1]}), json!({"merge": [{"var": "tags"}, {"var": "name"}]}),
            json!({"map": [{"var": "tags"}, {"cat": [{"var": ""}, "!"]}]}), json!({"reduce": [{"var": "tags"}, {"cat": [acc, cur]}, ""]}), json!(true), json!("const"), json!({"var": "nope"}), json!([{"var": "name"}]),
        ];
        for t in tables().iter() {
            for e in exprs.iter() {
                idx += 1;
                if !ctx.mine(idx) {
                    continue;
                }
                let data = json!({"rows": t, "name": "OUTER", "email": "OUTER", "phone": "OUTER", "age": 99, "tags": ["OUTER"]});
                for op in ["map", "filter", "all", "some", "none"] {
                    ctx.check(monitor, &json!({op: [{"var": "rows"}, e]}), &data);
                }
                ctx.check(monitor, &json!({"reduce": [{"var": "rows"}, {"+": [acc, {"if": [{"var": "current.email"}, 1, 0]}]}, 0]}), &data);
                ctx.check(monitor, &json!({"map": [t, e]}), &data);
                ctx.cell("idiom:rows");
            }
        }
    }
    // ---- switch ladders, range checks -------------------------------------------------------------
    if want("switch") {
        let xs: Vec<Value> = ["2", "2.0", "2e0", "\"2\"", "[2]", "0", "-0.0", "0.0", "\"0\"", "false", "null", "\"\"", "true", "1", "1.0", "\"1\"", "9007199254740993", "9007199254740992", "9007199254740992.0", "\"a\"", "\"A\"", "[]", "{}", "1.5", "\"1.5\"", "3"].iter().map(|t| p(t)).collect();
        let lits: Vec<Value> = ["1", "2", "3", "2.0", "\"2\"", "0", "false", "null", "\"\"", "\"a\"", "9007199254740992", "1.5", "true"].iter().map(|t| p(t)).collect();
        for x in xs.iter() {
            for cmp in ["===", "==", "!=", "!==", "<", ">="] {
                idx += 1;
                if !ctx.mine(idx) {
                    continue;
                }
                for n in 1..=5usize {
                    for rot in 0..lits.len() {
                        let mut ops: Vec<Value> = Vec::new();
                        for k in 0..n {
                            ops.push(json!({cmp: [{"var": "x"}, lits[(rot + k) % lits.len()]]}));
                            ops.push(json!(format!("case-{}", k)));
                        }
                        ops.push(json!("default"));
                        let data = json!({ "x": x });
                        ctx.check(monitor, &json!({ "if": ops }), &data);
                        if rot % 4 == 0 {
                            ctx.check(monitor, &json!({ "?:": ops }), &data);
                            // the same as a chain of or / and
                            let conds: Vec<Value> = ops.iter().step_by(2).take(n).cloned().collect();
                            ctx.check(monitor, &json!({ "or": conds }), &data);
                            ctx.check(monitor, &json!({ "and": conds }), &data);
                        }
                    }
                }
                ctx.cell("idiom:switch");
            }
            // range checks
            for (lo, hi) in [(json!(1), json!(3)), (json!("1"), json!("3")), (json!(0), json!(2.0)), (json!(null), json!("a")), (json!(9007199254740992i64), json!(9007199254740994i64))] {
                let data = json!({ "x": x });
                ctx.check(monitor, &json!({"and": [{"<=": [lo, {"var": "x"}]}, {"<": [{"var": "x"}, hi]}]}), &data);
                ctx.check(monitor, &json!({"<=": [lo, {"var": "x"}, hi]}), &data);
                ctx.check(monitor, &json!({"if": [{"<": [{"var": "x"}, lo]}, "below", {"<=": [{"var": "x"}, hi]}, "within", "above"]}), &data);
            }
        }
    }
    // ---- multi-key objects with an annotation next to an operator key are literals ------------------------
    if want("annotations") {
        let notes = ["$comment", "//", "#", "_comment", "comment", "description", "$schema", "$id", "id", "name", "title", "type", "@type", "__doc__", "$ref", "note", "_", "meta", "label", "doc", "$", "version", "key", "uuid", "x-note", "/*", "TODO", "@", "rule", "op"];
        let data = json!({"a": 1, "b": [1, 2], "s": "xy"});
        for op in all_ops() {
            idx += 1;
            if !ctx.mine(idx) {
                continue;
            }
            let args: Value = match op {
                "var" => json!("a"),
                "missing" => json!(["a", "z"]),
                "missing_some" => json!([1, ["a", "z"]]),
                "if" | "?:" => json!([true, "then", "else"]),
                "map" | "filter" | "all" | "some" | "none" => json!([[1, 2], true]),
                "reduce" => json!([[1, 2], 1, 0]),
                "substr" => json!(["hello", 1]),
                "in" => json!([1, [1]]),
                "!" | "!!" | "log" => json!([1]),
                _ => json!([1, 2]),
            };
            for n in notes.iter() {
                let mut m = serde_json::Map::new();
                m.insert(n.to_string(), json!("about this rule"));
                m.insert(op.to_string(), args.clone());
                let lit = Value::Object(m);
                let (obs, _) = ctx.check(monitor, &lit, &data);
                ctx.mon("c02.identity").observed += 1;
                ctx.mon("c02.identity").judged += 1;
                if !matches!(&obs.out, crate::observe::Outcome::Ok(r) if r.to_string() == lit.to_string()) || !obs.logs.is_empty() {
                    ctx.violation("c02.identity", &format!("annotated-multi-key-object:{}", n), &lit, &data, lit.clone(), obs.out.brief(), "a two-key object (an annotation next to an operator key) is a literal, not an operation");
                }
                // ... and in operand position
                ctx.check(monitor, &json!({"merge": [lit, 1]}), &data);
                ctx.check(monitor, &json!({"if": [true, lit, 0]}), &data);
            }
            ctx.cell("idiom:annotations");
        }
    }
}
