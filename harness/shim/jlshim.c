/* LD_PRELOAD interposer for the C17 "environment independence" lane.
 *
 * A pure function of (rule, data) cannot depend on the process environment, the clock, a random
 * source or a file. This library sits between the real program and libc. While the calling thread
 * is *armed* (the harness arms it exactly around one `jsonlogic_rs::apply`), it
 *   - records which of these sources were consulted (evidence, not a verdict), and
 *   - in the perturbing modes answers them differently:
 *   JL_SHIM_ALWAYS=1 arms every thread from the start of the process.
 *       JL_SHIM_MODE=0  pass everything through (recording only)
 *       JL_SHIM_MODE=A  every environment variable asked for exists and is "1"; every clock reading is
 *                       one hour later than the previous one; random bytes are all zero; files open
 *       JL_SHIM_MODE=B  every environment variable asked for exists and is "0"; the clock stands at
 *                       the epoch; random bytes are 0xAB; read-only opens fail with ENOENT
 * The verdict is taken elsewhere: the results under 0 / A / B must equal the results without the
 * shim. Unarmed threads and unarmed periods are passed through untouched.
 */
#define _GNU_SOURCE
#include <dlfcn.h>
#include <errno.h>
#include <fcntl.h>
#include <pthread.h>
#include <stdarg.h>
#include <stdio.h>
#include <stdlib.h>
#include <string.h>
#include <sys/time.h>
#include <sys/types.h>
#include <time.h>

static __thread int armed = 0;
static __thread int busy = 0;
static pthread_mutex_t mu = PTHREAD_MUTEX_INITIALIZER;
static char events[16384];
static size_t elen = 0;
static unsigned long total = 0;
static long fake_clock_steps = 0;
static int mode_cached = -1;

static int always_cached = -1;

/* JL_SHIM_ALWAYS=1: every thread is armed from the start (used for the `jsonlogic` command, which has
   no harness around its one evaluation) */
static int is_armed(void) {
    if (armed) return 1;
    if (always_cached < 0) {
        char *(*real)(const char *) = (char *(*)(const char *))dlsym(RTLD_NEXT, "getenv");
        const char *m = real ? real("JL_SHIM_ALWAYS") : NULL;
        always_cached = (m && m[0] == '1') ? 1 : 0;
    }
    return always_cached;
}

static int mode(void) {
    if (mode_cached < 0) {
        char *(*real)(const char *) = (char *(*)(const char *))dlsym(RTLD_NEXT, "getenv");
        const char *m = real ? real("JL_SHIM_MODE") : NULL;
        mode_cached = (m && m[0] == 'A') ? 1 : (m && m[0] == 'B') ? 2 : 0;
    }
    return mode_cached;
}

static void rec(const char *name, const char *arg) {
    if (busy) return;
    busy = 1;
    pthread_mutex_lock(&mu);
    total++;
    if (elen + 120 < sizeof events) {
        int n = snprintf(events + elen, 118, "%s(%.90s);", name, arg ? arg : "");
        if (n > 0) elen += (size_t)(n < 118 ? n : 117);
    }
    pthread_mutex_unlock(&mu);
    busy = 0;
}

void jl_shim_arm(int on) { armed = on; }

/* copies the names consulted since the last call into buf, returns how many there were */
unsigned long jl_shim_take(char *buf, size_t n) {
    unsigned long t;
    pthread_mutex_lock(&mu);
    size_t k = elen < n - 1 ? elen : n - 1;
    if (n > 0) {
        memcpy(buf, events, k);
        buf[k] = 0;
    }
    elen = 0;
    t = total;
    total = 0;
    pthread_mutex_unlock(&mu);
    return t;
}

#define REAL(ret, name, ...)                                  \
    static ret (*real_##name)(__VA_ARGS__) = NULL;            \
    if (!real_##name) real_##name = (ret(*)(__VA_ARGS__))dlsym(RTLD_NEXT, #name);

char *getenv(const char *name) {
    REAL(char *, getenv, const char *)
    if (!is_armed() || busy) return real_getenv ? real_getenv(name) : NULL;
    rec("getenv", name);
    switch (mode()) {
    case 1: return (char *)"1";
    case 2: return (char *)"0";
    default: return real_getenv ? real_getenv(name) : NULL;
    }
}

char *secure_getenv(const char *name) {
    REAL(char *, secure_getenv, const char *)
    if (!is_armed() || busy) return real_secure_getenv ? real_secure_getenv(name) : NULL;
    rec("secure_getenv", name);
    switch (mode()) {
    case 1: return (char *)"1";
    case 2: return (char *)"0";
    default: return real_secure_getenv ? real_secure_getenv(name) : NULL;
    }
}

int clock_gettime(clockid_t id, struct timespec *ts) {
    REAL(int, clock_gettime, clockid_t, struct timespec *)
    int r = real_clock_gettime(id, ts);
    if (!is_armed() || busy) return r;
    /* CPU-time clocks are used by the harness's own watchdog arithmetic on other threads; only the
       wall / monotonic family is a "time of day" source */
    if (id == CLOCK_THREAD_CPUTIME_ID || id == CLOCK_PROCESS_CPUTIME_ID) return r;
    rec("clock_gettime", "");
    if (r == 0 && ts) {
        if (mode() == 1) {
            long s = __sync_add_and_fetch(&fake_clock_steps, 1);
            ts->tv_sec += 3600 * s;
        } else if (mode() == 2) {
            ts->tv_sec = 0;
            ts->tv_nsec = 0;
        }
    }
    return r;
}

int gettimeofday(struct timeval *tv, void *tz) {
    REAL(int, gettimeofday, struct timeval *, void *)
    int r = real_gettimeofday(tv, tz);
    if (!is_armed() || busy) return r;
    rec("gettimeofday", "");
    if (r == 0 && tv) {
        if (mode() == 1) {
            long s = __sync_add_and_fetch(&fake_clock_steps, 1);
            tv->tv_sec += 3600 * s;
        } else if (mode() == 2) {
            tv->tv_sec = 0;
            tv->tv_usec = 0;
        }
    }
    return r;
}

time_t time(time_t *t) {
    REAL(time_t, time, time_t *)
    time_t r = real_time(NULL);
    if (is_armed() && !busy) {
        rec("time", "");
        if (mode() == 1) r += 3600 * __sync_add_and_fetch(&fake_clock_steps, 1);
        else if (mode() == 2) r = 0;
    }
    if (t) *t = r;
    return r;
}

ssize_t getrandom(void *buf, size_t len, unsigned int flags) {
    REAL(ssize_t, getrandom, void *, size_t, unsigned int)
    if (!is_armed() || busy || mode() == 0) {
        if (is_armed() && !busy) rec("getrandom", "");
        return real_getrandom ? real_getrandom(buf, len, flags) : -1;
    }
    rec("getrandom", "");
    memset(buf, mode() == 1 ? 0 : 0xAB, len);
    return (ssize_t)len;
}

int getentropy(void *buf, size_t len) {
    REAL(int, getentropy, void *, size_t)
    if (!is_armed() || busy || mode() == 0) {
        if (is_armed() && !busy) rec("getentropy", "");
        return real_getentropy ? real_getentropy(buf, len) : -1;
    }
    rec("getentropy", "");
    memset(buf, mode() == 1 ? 0 : 0xAB, len);
    return 0;
}

static int deny_read(const char *path, int flags) {
    if (!is_armed() || busy) return 0;
    rec((flags & O_ACCMODE) == O_RDONLY ? "open-for-reading" : "open-for-writing", path);
    return mode() == 2 && (flags & O_ACCMODE) == O_RDONLY;
}

int open(const char *path, int flags, ...) {
    REAL(int, open, const char *, int, ...)
    mode_t m = 0;
    if (flags & (O_CREAT | O_TMPFILE)) {
        va_list ap;
        va_start(ap, flags);
        m = va_arg(ap, mode_t);
        va_end(ap);
    }
    if (deny_read(path, flags)) {
        errno = ENOENT;
        return -1;
    }
    return real_open(path, flags, m);
}

int open64(const char *path, int flags, ...) {
    REAL(int, open64, const char *, int, ...)
    mode_t m = 0;
    if (flags & (O_CREAT | O_TMPFILE)) {
        va_list ap;
        va_start(ap, flags);
        m = va_arg(ap, mode_t);
        va_end(ap);
    }
    if (deny_read(path, flags)) {
        errno = ENOENT;
        return -1;
    }
    return real_open64(path, flags, m);
}

int openat(int dirfd, const char *path, int flags, ...) {
    REAL(int, openat, int, const char *, int, ...)
    mode_t m = 0;
    if (flags & (O_CREAT | O_TMPFILE)) {
        va_list ap;
        va_start(ap, flags);
        m = va_arg(ap, mode_t);
        va_end(ap);
    }
    if (deny_read(path, flags)) {
        errno = ENOENT;
        return -1;
    }
    return real_openat(dirfd, path, flags, m);
}

int openat64(int dirfd, const char *path, int flags, ...) {
    REAL(int, openat64, int, const char *, int, ...)
    mode_t m = 0;
    if (flags & (O_CREAT | O_TMPFILE)) {
        va_list ap;
        va_start(ap, flags);
        m = va_arg(ap, mode_t);
        va_end(ap);
    }
    if (deny_read(path, flags)) {
        errno = ENOENT;
        return -1;
    }
    return real_openat64(dirfd, path, flags, m);
}

FILE *fopen(const char *path, const char *fmode) {
    REAL(FILE *, fopen, const char *, const char *)
    int ro = fmode && fmode[0] == 'r' && !strchr(fmode, '+');
    if (deny_read(path, ro ? O_RDONLY : O_WRONLY)) {
        errno = ENOENT;
        return NULL;
    }
    return real_fopen(path, fmode);
}

FILE *fopen64(const char *path, const char *fmode) {
    REAL(FILE *, fopen64, const char *, const char *)
    int ro = fmode && fmode[0] == 'r' && !strchr(fmode, '+');
    if (deny_read(path, ro ? O_RDONLY : O_WRONLY)) {
        errno = ENOENT;
        return NULL;
    }
    return real_fopen64(path, fmode);
}
