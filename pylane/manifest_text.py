"""Texts for MANIFEST.json (see gen_manifest.py)."""

HOOKS = {
    "guard": "--cfg jsonlogic_rs_verif",
    "enable": "no source hook exists: every property is observable at the API / process boundary (values, errors, panics, the lines printed by `log`, exit status, Python exceptions). The guard name is reserved; checks build /repo exactly as a user would (path dependency, `--features cmdline`, `--features python`).",
    "baseline_off_cmd": "cd /repo && cargo test --workspace --no-fail-fast --offline",
    "source_commits": [],
    "add_only": True,
}

ENGINES = [
    {"name": "jlmon", "path": "harness/", "kind_free_text": "Rust driver linked against /repo by path: seeded hostile workloads, online monitors (reference-model differential judge, algebraic laws, log-trace judge over captured fd 1, counting allocator, per-call CPU clock), built in lanes dev / release / relchk (release + overflow-checks + debug-assertions) / AddressSanitizer / ThreadSanitizer / Miri",
     "serves_properties": ["C01", "C02", "C03", "C04", "C05", "C06", "C07", "C08", "C09", "C10", "C11", "C12", "C13", "C14", "C15", "C16", "C17"]},
    {"name": "pylane", "path": "pylane/", "kind_free_text": "process-boundary monitors over the real `jsonlogic` binary and the real CPython extension built from the working tree: exit status / signal / stdout / stderr / exception-type observation against the library reached as a separate process (jlmon libcall), strace syscall allow-list, valgrind memcheck",
     "serves_properties": ["C01", "C05", "C17", "C18", "C19"]},
]

NOTES = ("Runtime monitoring and sanitizers only. Every verdict is 'held on the executions observed'; evidence/<id>.json says what was observed "
         "(evaluations, distinct non-trivial cases, per-monitor judged counts, coverage cells, lanes and tools, log lines matched, seeds / schedules). "
         "Exit 2 = inconclusive (never folded into pass or violation). known_findings.json lists genuine defects (fixed ones suppress nothing).")

_T = "runtime monitoring: reference-model differential monitor + law monitors over seeded hostile workloads"

CHECKS = {
    "C06": {"engine": "jlmon", "technique": _T + " (truthiness table, cross-position consistency)",
            "text": "Every value of a hostile corpus and of a seeded random stream is driven through all 16 deciding positions and up to 5 routes of the real interpreter; an online monitor compares each decision with the five-line table, with the reference model and with every other position. Exploration is the right level: the property is a universal statement over values, the table is tiny, and the risk is one operator using a different notion of truthiness on a corner value - which product coverage of (value class x position) exposes.",
            "note": "Trusts the table as transcribed from the statement and serde_json's value model; covers the value classes listed in coverage_cells, not all JSON values."},
    "C07": {"engine": "jlmon", "technique": _T + " (ECMAScript abstract equality; symmetry, negation, helper=operator), oracle cross-checked against recorded V8 ground truth",
            "text": "The full square of a 150-value corpus, a 4 000-string numeric grammar corpus and seeded random pairs go through == and != of the real code (operands via var, as literals, through the js_op helpers); monitors judge each result against an independent ECMA-262 model (itself replayed against a table recorded from V8 on every run) and against symmetry / negation laws that need no model.",
            "note": "Oracle = refsem::es_eq + StringToNumber model; white-space code points on which Rust and ECMAScript differ (U+0085, U+FEFF) and radix literals beyond 2^53 are unjudged."},
    "C08": {"engine": "jlmon", "technique": _T + " (strict equality with distinct instances; negation, symmetry, === implies ==)",
            "text": "Same pair workload as C07 plus the square of 20 spellings of numerically equal / adjacent numbers around 2^53 and 2^63, including both operands read from the same data slot; monitors judge against strict equality on doubles with containers never equal, and against the relations between the four equality operators.",
            "note": "The documented same-reference shortcut of the helper (strict_eq(&x,&x)) is not judged; the property speaks of values obtained by evaluation."},
    "C09": {"engine": "jlmon", "technique": _T + " (ECMAScript relational comparison; mirror and between laws)",
            "text": "Corpus square and triples for <, <=, >, >= through the real code; monitors judge against an independent relational-comparison model (to-primitive, code-point string order, StringToNumber, NaN is false, <= on converted operands) and against the mirror / conjunction laws, with a coverage cell for the class 'neither < nor ==' that the suite never tries.",
            "note": "String order is by code point as the statement says (pairs where UTF-16 order differs are excluded from the recorded V8 table, not from the workload)."},
    "C10": {"engine": "jlmon", "technique": _T + " (bit-exact IEEE-754 reference computation, error boundary, integer spelling)",
            "text": "Operand tuples aimed at conversions (parseFloat prefixes vs Number-style), at results on and around 2^53, 2^63, 2^64, at overflow / underflow / 0/0 / x%0; every returned number is compared bit-for-bit as a double and exactly as an integer with the reference fold, and Ok/Err is compared with 'operand non-numeric or result not finite'.",
            "note": "Reference computation uses Rust's f64 arithmetic and correctly rounded decimal parsing (trusted); for integral results of magnitude >= 2^63 either JSON spelling of the same exact value is accepted."},
    "C15": {"engine": "jlmon", "technique": _T + " (one-level merge with length/order law; numeric-aware deep membership)",
            "text": "merge over nested shapes with a model-free length / order law; in over number spellings at nesting depth 0..2, permuted object keys, multi-byte substrings; judged against the reference model.",
            "note": "Pairs of integers beyond 2^53 that are equal as doubles but not exactly are unjudged (the statement says 'numerically equal' without fixing the number system)."},
    "C16": {"engine": "jlmon", "technique": _T + " (character-based substr model; split/recombine, suffix, contiguity, cat-in-pieces laws)",
            "text": "Exhaustive short strings over a 1/2/3/4-byte + combining-mark alphabet x all small and extreme start / length values; results judged against a character-based model and against laws that need no model (split/recombine, negative start = suffix, result is a contiguous character run); cat judged against the reference string forms and associativity.",
            "note": "substr on a non-string first operand or non-integer offsets is unjudged (not determined by the statement)."},
}

NOT_APPLICABLE = {}
