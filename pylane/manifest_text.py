"""Texts for MANIFEST.json (see gen_manifest.py)."""

HOOKS = {
    "guard": "--cfg jsonlogic_rs_verif",
    "enable": "no source hook exists: every property is observable at the API / process boundary (values, errors, panics, the lines printed by `log`, exit status, Python exceptions). The guard name is reserved; checks build /repo exactly as a user would (path dependency, `--features cmdline`, `--features python`).",
    "baseline_off_cmd": "cd /repo && cargo test --workspace --no-fail-fast --offline",
    "source_commits": [],
    "add_only": True,
}

ENGINES = [
    {"name": "jlmon", "path": "harness/", "kind_free_text": "Rust driver linked against /repo by path: seeded hostile workloads, online monitors (reference-model differential judge, algebraic laws, log-trace judge over captured fd 1, counting allocator, per-call CPU clock), built in lanes dev / release / relchk (release + overflow-checks + debug-assertions) / AddressSanitizer / ThreadSanitizer / Miri",
     "serves_properties": ["C01", "C02", "C03", "C04", "C05", "C06", "C07", "C08", "C09", "C10", "C11", "C12", "C13", "C14", "C15", "C16", "C17"]},
    {"name": "pylane", "path": "pylane/", "kind_free_text": "process-boundary monitors over the real `jsonlogic` binary and the real CPython extension built from the working tree: exit status / signal / stdout / stderr / exception-type observation against the library reached as a separate process (jlmon libcall), strace syscall allow-list, valgrind memcheck",
     "serves_properties": ["C01", "C05", "C17", "C18", "C19"]},
]

NOTES = ("Runtime monitoring and sanitizers only. Every verdict is 'held on the executions observed'; evidence/<id>.json says what was observed "
         "(evaluations, distinct non-trivial cases, per-monitor judged counts, coverage cells, lanes and tools, log lines matched, seeds / schedules). "
         "Exit 2 = inconclusive (never folded into pass or violation). known_findings.json lists genuine defects (fixed ones suppress nothing).")

_T = "runtime monitoring: reference-model differential monitor + law monitors over seeded hostile workloads"

CHECKS = {
    "C06": {"engine": "jlmon", "technique": _T + " (truthiness table, cross-position consistency)",
            "text": "Every value of a hostile corpus and of a seeded random stream is driven through all 16 deciding positions and up to 5 routes of the real interpreter; an online monitor compares each decision with the five-line table, with the reference model and with every other position. Exploration is the right level: the property is a universal statement over values, the table is tiny, and the risk is one operator using a different notion of truthiness on a corner value - which product coverage of (value class x position) exposes.",
            "note": "Trusts the table as transcribed from the statement and serde_json's value model; covers the value classes listed in coverage_cells, not all JSON values."},
    "C07": {"engine": "jlmon", "technique": _T + " (ECMAScript abstract equality; symmetry, negation, helper=operator), oracle cross-checked against recorded V8 ground truth",
            "text": "The full square of a 150-value corpus, a 4 000-string numeric grammar corpus and seeded random pairs go through == and != of the real code (operands via var, as literals, through the js_op helpers); monitors judge each result against an independent ECMA-262 model (itself replayed against a table recorded from V8 on every run) and against symmetry / negation laws that need no model.",
            "note": "Oracle = refsem::es_eq + StringToNumber model; white-space code points on which Rust and ECMAScript differ (U+0085, U+FEFF) and radix literals beyond 2^53 are unjudged."},
    "C08": {"engine": "jlmon", "technique": _T + " (strict equality with distinct instances; negation, symmetry, === implies ==)",
            "text": "Same pair workload as C07 plus the square of 20 spellings of numerically equal / adjacent numbers around 2^53 and 2^63, including both operands read from the same data slot; monitors judge against strict equality on doubles with containers never equal, and against the relations between the four equality operators.",
            "note": "The documented same-reference shortcut of the helper (strict_eq(&x,&x)) is not judged; the property speaks of values obtained by evaluation."},
    "C09": {"engine": "jlmon", "technique": _T + " (ECMAScript relational comparison; mirror and between laws)",
            "text": "Corpus square and triples for <, <=, >, >= through the real code; monitors judge against an independent relational-comparison model (to-primitive, code-point string order, StringToNumber, NaN is false, <= on converted operands) and against the mirror / conjunction laws, with a coverage cell for the class 'neither < nor ==' that the suite never tries.",
            "note": "String order is by code point as the statement says (pairs where UTF-16 order differs are excluded from the recorded V8 table, not from the workload)."},
    "C10": {"engine": "jlmon", "technique": _T + " (bit-exact IEEE-754 reference computation, error boundary, integer spelling)",
            "text": "Operand tuples aimed at conversions (parseFloat prefixes vs Number-style), at results on and around 2^53, 2^63, 2^64, at overflow / underflow / 0/0 / x%0; every returned number is compared bit-for-bit as a double and exactly as an integer with the reference fold, and Ok/Err is compared with 'operand non-numeric or result not finite'.",
            "note": "Reference computation uses Rust's f64 arithmetic and correctly rounded decimal parsing (trusted); for integral results of magnitude >= 2^63 either JSON spelling of the same exact value is accepted."},
    "C15": {"engine": "jlmon", "technique": _T + " (one-level merge with length/order law; numeric-aware deep membership)",
            "text": "merge over nested shapes with a model-free length / order law; in over number spellings at nesting depth 0..2, permuted object keys, multi-byte substrings; judged against the reference model.",
            "note": "Pairs of integers beyond 2^53 that are equal as doubles but not exactly are unjudged (the statement says 'numerically equal' without fixing the number system)."},
    "C16": {"engine": "jlmon", "technique": _T + " (character-based substr model; split/recombine, suffix, contiguity, cat-in-pieces laws)",
            "text": "Exhaustive short strings over a 1/2/3/4-byte + combining-mark alphabet x all small and extreme start / length values; results judged against a character-based model and against laws that need no model (split/recombine, negative start = suffix, result is a contiguous character run); cat judged against the reference string forms and associativity.",
            "note": "substr on a non-string first operand or non-integer offsets is unjudged (not determined by the statement)."},
    "C02": {"engine": "jlmon", "technique": _T + " (identity on non-rules incl. near-miss keys and operation-shaped members; no-log monitor; distinguishing dispatch tuples)",
            "text": "Every way a value can look like a rule without being one is generated from the 35 operator names and evaluated against data in which the embedded keys would resolve; an identity monitor requires the value back text-identical with no log line, and each operator is driven with a tuple on which its result differs from every other operator's. The product (name x near-miss derivation x operand shape x data) is enumerated completely; nesting inside operator arguments is sampled.",
            "note": "Near-miss derivations are a finite catalogue (surrounding white space, case, prefix / suffix, look-alikes); a recogniser keyed on some other transformation would only be seen through the random part."},
    "C03": {"engine": "jlmon", "technique": _T + " (exhaustive operator x count x form arity monitor; bracket-less = bracketed law)",
            "text": "The finite space operator x operand count 0..6 x spelling is enumerated completely and each cell is filled with type-valid and random operand tuples; the arity monitor needs only Ok/Err, the unary-form monitor compares {op: x} with {op: [x]} on outcome and log trace for every corpus value, and the model judges the value so that ignored surplus operands or invented defaults show up.",
            "note": "Counts above 6 are not enumerated (the at-least / any operators are sampled up to 6); type-validity of the fixed tuples is itself checked by the model."},
    "C04": {"engine": "jlmon", "technique": _T + " + effect monitor on captured stdout (marker data, probe multiplicity), model-free leak and substitution-law monitors",
            "text": "Operation-shaped markers are planted in the data and pushed through every channel by which a data, default or computed value reaches an operator; a second interpretation pass becomes observable as a LEAK line on the captured stdout, as the secret in the result, or as a probe firing twice. The substitution law is checked on the implementation alone for all 22 eager operators.",
            "note": "Channels are a finite catalogue (40) plus random rule trees; effects are observed through fd 1 redirection, so anything written elsewhere is C17's subject."},
    "C05": {"engine": "jlmon", "technique": _T + " + log-trace judge (laziness and order made observable by poisoned and logging operands); if = ?: alias law",
            "text": "All short operand lists over an alphabet of falsy / corner-truthy / data / poison / probe symbols, and random long and nested lists, are evaluated as if, ?:, and, or; the monitor compares value, Ok/Err and the exact sequence of probe lines with the single-pass model, so an operand evaluated although not selected shows either as an error or as an extra line.",
            "note": "Probe lines from sibling operands of eager operators are compared as multisets (the statements do not fix that order); everything inside if / and / or is compared in order."},
    "C11": {"engine": "jlmon", "technique": _T + " (path-resolution model; derived-path, default, whole-data and frame laws)",
            "text": "For every node of hostile fixed and random trees the escaped path derived from the tree must resolve to exactly that node - a law that needs no model - with and without defaults, through computed keys, and unchanged when unrelated subtrees are mutated; boundary and extreme indices, string indexing by character and 53 awkward spellings are judged against the model.",
            "note": "Float / out-of-range / non-scalar keys, non-canonical index spellings ('+1', '01', '-0'), a trailing dot and a lone trailing backslash are unjudged."},
    "C12": {"engine": "jlmon", "technique": _T + " (relation monitor against the implementation's own var via a sentinel default; threshold laws)",
            "text": "missing and missing_some are compared with the model and, independently, with what the implementation's own var finds for each key (sentinel default), over key lists with duplicates, null keys, null-valued and empty-valued fields, integer and dotted keys, all thresholds, and five ways of supplying the list.",
            "note": "Where 'number of listed keys present' can be read with or without multiplicity / null keys and the readings differ, the case is unjudged; 'an absent key never counts as present' is judged under every reading."},
    "C13": {"engine": "jlmon", "technique": _T + " + log-trace judge (one evaluation per element, in order); map-length and filter-subsequence laws",
            "text": "Collections x expressions x initial values are enumerated over catalogues chosen to pin fold order (non-commutative expressions), scoping (outer-data probes, the exact two-key reduce context), element identity and the null / non-array conventions; value and probe trace are judged against the model and two model-free laws.",
            "note": "A malformed expression that is never evaluated (empty collection) is unjudged."},
    "C14": {"engine": "jlmon", "technique": _T + " + log-trace judge (short-circuit); none = not some and all/none duality laws; one-element-per-character monitor",
            "text": "Collections of every kind the statement names (literal arrays of expressions, computed arrays, strings incl. multi-byte, empty, null, other) x predicates x the three quantifiers; short-circuiting is observed through probes and poisons placed after the deciding element; duality laws are checked on the implementation alone.",
            "note": "Element expressions of a literal array after the deciding element may or may not be evaluated (optional lines; an error there is unjudged)."},
    "C18": {"engine": "pylane", "technique": "runtime monitoring at the process boundary: real binary vs library-as-a-process differential monitor (exit status, stdout lines), chain law",
            "text": "The real jsonlogic binary (debug and release, built from the working tree) is run thousands of times over valid, erroring, logging and malformed inputs in all three data-supply forms; a monitor compares exit status and stdout line by line with the same library reached through a different path (jlmon libcall), and pipes outputs into second invocations. The binary has no tests at all, and its contract is over all inputs and invocation forms.",
            "note": "Operands that start with '-' are passed after '--' (option parsing is not part of the property); arguments above 100 KB go through stdin only; non-UTF-8 argv and a closed stdout are outside the stated domain."},
    "C19": {"engine": "pylane", "technique": "runtime monitoring at the FFI boundary: real CPython extension in child interpreters vs library-as-a-process, type-exact value monitor, exception-type monitor, call-count monitor for supplied (de)serialisers",
            "text": "The extension built from the working tree plus the working tree's __init__.py are driven in child interpreters through both entry points and every combination of omitted / supplied optional arguments; results are compared type-exactly with json.loads of the library's answer, every failure must be exactly ValueError, tagging wrappers verify the (de)serialisers are used exactly as specified, and a progress record makes an interpreter crash attributable.",
            "note": "Python's own json module is trusted for the (de)serialisation half; objects are those json.loads can produce plus non-finite floats and big integers."},
    "C01": {"engine": "jlmon + pylane", "technique": "runtime monitoring: panic / abnormal-termination / CPU-budget monitors over hostile workloads in debug, release and overflow-checking builds; AddressSanitizer and Miri lanes; exit-status and exception-type monitors on the real CLI and CPython extension",
            "text": "Evaluation and every public helper are driven with values aimed at panics (64-bit extremes in every index-taking position, results beyond 2^63 and beyond finite, multi-byte strings, the deepest documents the text boundary delivers, over-limit nesting at the CLI / Python boundary) under catch_unwind in three build profiles every run; shards are separate processes so that aborts and stack overflows are observed as abnormal termination and pinned to the in-flight call by a trace re-run; thorough adds ASan and Miri. The property quantifies over operand values x operators x profiles x entry points, which is exactly what such a matrix covers and a sample cannot.",
            "note": "'Never hangs' is restated as a per-call CPU-time bound on bounded documents; programmatically built Values deeper than 128 levels are outside the stated domain."},
    "C17": {"engine": "jlmon + pylane", "technique": "runtime monitoring: history monitor against isolated results, input-immutability monitor, heap-conservation and allocation-determinism monitor (counting allocator), concurrent-result and log-multiset monitors under native stress, ThreadSanitizer and Miri seeds; strace deny-list; fresh-process differential",
            "text": "Each call's result and log trace in long randomised histories and in concurrent rounds on shared inputs is compared with its isolated result; a counting allocator makes semantically invisible state (caches, memos, leaks) observable; ThreadSanitizer and Miri's race detector watch the same concurrent workload; strace shows that the only externally visible effect of the command is writing to stdout / stderr.",
            "note": "Schedules are sampled (distinct completion orders, TSan runs and Miri seeds are reported), never enumerated."},
}

NOT_APPLICABLE = {}
