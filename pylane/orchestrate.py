"""Orchestration of the monitor lanes: build, shard, aggregate, judge against known findings,
write evidence. See /verif/DESIGN.md sections 2 and 7."""
import fnmatch, hashlib, json, os, shutil, subprocess, sys, time
from concurrent.futures import ThreadPoolExecutor

VERIF = os.path.dirname(os.path.dirname(os.path.abspath(__file__)))
REPO = os.environ.get("JL_REPO", "/repo")
TARGET = os.path.join(VERIF, "target")
OUT = os.path.join(VERIF, "out")
HARNESS = os.path.join(VERIF, "harness")
NCPU = os.cpu_count() or 4

BASE_ENV = dict(os.environ)
BASE_ENV.update({"CARGO_NET_OFFLINE": "true", "CARGO_TERM_COLOR": "never"})
for k in ("RUSTFLAGS", "CARGO_TARGET_DIR", "CARGO_BUILD_TARGET"):
    BASE_ENV.pop(k, None)


class Inconclusive(Exception):
    pass


def log(msg):
    print(msg, flush=True)


# ----------------------------------------------------------------------------------------
# lanes

LANES = {
    # name: (cargo args, env additions, relative path of the binary under TARGET/<name>)
    "relchk": (["build", "--offline", "--profile", "relchk"], {}, "relchk/jlmon"),
    "dev": (["build", "--offline"], {}, "debug/jlmon"),
    "release": (["build", "--offline", "--release"], {}, "release/jlmon"),
    "asan": (["+nightly", "build", "--offline", "--profile", "relchk", "--no-default-features",
              "--target", "x86_64-unknown-linux-gnu"],
             {"RUSTFLAGS": "-Zsanitizer=address -Cforce-frame-pointers=yes"},
             "x86_64-unknown-linux-gnu/relchk/jlmon"),
    "tsan": (["+nightly", "build", "--offline", "--profile", "relchk", "--no-default-features",
              "-Zbuild-std", "--target", "x86_64-unknown-linux-gnu"],
             {"RUSTFLAGS": "-Zsanitizer=thread"},
             "x86_64-unknown-linux-gnu/relchk/jlmon"),
}


def harness_dir():
    """The harness crate depends on the code under test by path (/repo). For background sweeps on a
    copy of the repository (JL_REPO=<dir>, never used by the registered commands) a private copy of
    the harness with the path rewritten is used."""
    if REPO == "/repo":
        return HARNESS
    tag = hashlib.sha1(REPO.encode()).hexdigest()[:10]
    dst = os.path.join(TARGET, "harness-" + tag)
    os.makedirs(os.path.join(dst, "src"), exist_ok=True)
    for f in os.listdir(os.path.join(HARNESS, "src")):
        a, b = os.path.join(HARNESS, "src", f), os.path.join(dst, "src", f)
        if not os.path.exists(b) or open(a, "rb").read() != open(b, "rb").read():
            shutil.copy(a, b)
    toml = open(os.path.join(HARNESS, "Cargo.toml")).read().replace('path = "/repo"', 'path = "%s"' % REPO)
    if not os.path.exists(os.path.join(dst, "Cargo.toml")) or open(os.path.join(dst, "Cargo.toml")).read() != toml:
        open(os.path.join(dst, "Cargo.toml"), "w").write(toml)
    if not os.path.exists(os.path.join(dst, "Cargo.lock")):
        shutil.copy(os.path.join(HARNESS, "Cargo.lock"), os.path.join(dst, "Cargo.lock"))
    return dst


def ensure_lock():
    """The harness shares /repo's lock file (same dependency versions as the code under test)."""
    dst = os.path.join(HARNESS, "Cargo.lock")
    if not os.path.exists(dst):
        src = os.path.join(REPO, "Cargo.lock")
        if os.path.exists(src):
            shutil.copy(src, dst)


def die_with_parent():
    """preexec hook: a child must not outlive a killed orchestrator (PR_SET_PDEATHSIG = SIGKILL)."""
    try:
        import ctypes
        ctypes.CDLL("libc.so.6", use_errno=True).prctl(1, 9, 0, 0, 0)
    except Exception:
        pass


def run_cmd(cmd, env=None, cwd=None, timeout=3600, stdin=None):
    e = dict(BASE_ENV)
    if env:
        e.update(env)
    t0 = time.time()
    try:
        p = subprocess.run(cmd, env=e, cwd=cwd, timeout=timeout, input=stdin, preexec_fn=die_with_parent,
                           stdout=subprocess.PIPE, stderr=subprocess.PIPE)
        return p.returncode, p.stdout, p.stderr, time.time() - t0
    except subprocess.TimeoutExpired as ex:
        return None, ex.stdout or b"", ex.stderr or b"", time.time() - t0


def repo_content_hash():
    """Content hash of everything in the repository that a build reads (not mtimes)."""
    h = hashlib.sha256()
    roots = ["Cargo.toml", "Cargo.lock", "build.rs", "src", "py", "tests/data"]
    for r in roots:
        p = os.path.join(REPO, r)
        if os.path.isfile(p):
            files = [p]
        else:
            files = []
            for dp, dn, fn in os.walk(p):
                dn.sort()
                files += [os.path.join(dp, f) for f in sorted(fn)]
        for f in files:
            try:
                h.update(os.path.relpath(f, REPO).encode() + b"\0" + open(f, "rb").read() + b"\0")
            except OSError:
                pass
    return h.hexdigest()


def ensure_fresh(tdir):
    """cargo decides freshness by mtime: a working tree restored with *older* timestamps (rsync -a, cp -p
    of a pristine copy over a changed one) would be taken for unchanged and the stale objects of the
    previous tree would be linked. So: whenever the content of the repository differs from what this
    target directory was last built from, the fingerprints of the crate under test are removed, which
    makes cargo recompile it (and everything that depends on it) from the current files."""
    want = repo_content_hash()
    mark = os.path.join(tdir, ".repo-content-hash")
    try:
        have = open(mark).read().strip()
    except OSError:
        have = ""
    if have != want:
        for dp, dn, fn in os.walk(tdir):
            if os.path.basename(dp) == ".fingerprint":
                for d in list(dn):
                    if d.startswith("jsonlogic-rs-") or d.startswith("jsonlogic_rs-") or d.startswith("jlmon-"):
                        shutil.rmtree(os.path.join(dp, d), ignore_errors=True)
                dn[:] = []
        try:
            os.unlink(mark)
        except OSError:
            pass
    return mark, want


def mark_fresh(mk):
    mark, want = mk
    os.makedirs(os.path.dirname(mark), exist_ok=True)
    with open(mark, "w") as f:
        f.write(want)


def build_lane(lane):
    """(Re)build one in-process lane from /repo's current working tree. Returns the binary."""
    ensure_lock()
    args, env, rel = LANES[lane]
    tdir = os.path.join(TARGET, lane)
    env = dict(env)
    env["CARGO_TARGET_DIR"] = tdir
    mk = ensure_fresh(tdir)
    rc, out, err, dt = run_cmd(["cargo"] + args, env=env, cwd=harness_dir(), timeout=3000)
    if rc != 0:
        sys.stderr.write(err.decode("utf8", "replace")[-4000:])
        raise Inconclusive("build of lane %s failed (rc=%s)" % (lane, rc))
    mark_fresh(mk)
    binary = os.path.join(tdir, rel)
    if not os.path.exists(binary):
        raise Inconclusive("lane %s built but %s is missing" % (lane, binary))
    log("[build] lane=%s ok (%.1fs)" % (lane, dt))
    return binary


MIRI_ENV = {"CARGO_TARGET_DIR": os.path.join(TARGET, "miri")}


def build_miri():
    """Warm the Miri build (sysroot + crate) with a trivial run."""
    ensure_lock()
    env = dict(MIRI_ENV)
    env["MIRIFLAGS"] = "-Zmiri-disable-isolation"
    mk = ensure_fresh(MIRI_ENV["CARGO_TARGET_DIR"])
    rc, out, err, dt = run_cmd(["cargo", "+nightly", "miri", "run", "--offline", "--no-default-features", "--", "miri-ping"],
                               env=env, cwd=harness_dir(), timeout=3000)
    if rc != 0 or b"miri-pong" not in out:
        sys.stderr.write(err.decode("utf8", "replace")[-3000:])
        raise Inconclusive("the Miri lane could not be built / started (rc=%s)" % rc)
    mark_fresh(mk)
    log("[build] lane=miri ok (%.1fs)" % dt)


def run_miri(pid, tier, seed, miri_seeds, timeout=3600):
    """One interpreter process per Miri seed (different schedules / allocation orders)."""
    d = os.path.join(OUT, pid, "miri")
    shutil.rmtree(d, ignore_errors=True)
    os.makedirs(d, exist_ok=True)

    def one(ms):
        outp = os.path.join(d, "seed-%d.json" % ms)
        env = dict(MIRI_ENV)
        env["MIRIFLAGS"] = "-Zmiri-disable-isolation -Zmiri-seed=%d" % ms
        cmd = ["cargo", "+nightly", "miri", "run", "--offline", "--no-default-features", "--", "run", pid, "--tier", tier,
               "--seed", str(seed + ms), "--shard", "%d/%d" % (ms % 16, 16), "--lane", "miri", "--small", "--out", outp]
        rc, out, err, dt = run_cmd(cmd, env=env, cwd=harness_dir(), timeout=timeout)
        return ms, rc, outp, err, dt, cmd

    reports, failures = [], []
    with ThreadPoolExecutor(max_workers=min(len(miri_seeds), NCPU)) as ex:
        for ms, rc, outp, err, dt, cmd in ex.map(one, miri_seeds):
            etext = err.decode("utf8", "replace")
            if rc == 0 and os.path.exists(outp):
                try:
                    reports.append(json.load(open(outp)))
                    continue
                except Exception:
                    pass
            failures.append({"shard": ms, "rc": rc, "stderr": etext[-4000:], "wall_s": dt, "cmd": cmd, "lane": "miri",
                             "miri_report": ("Undefined Behavior" in etext) or ("Data race" in etext) or ("error: " in etext and "miri" in etext.lower())})
    return reports, failures


def build_cli(profile):
    tdir = os.path.join(TARGET, "cli")
    cmd = ["cargo", "build", "--offline", "--features", "cmdline", "--bin", "jsonlogic",
           "--manifest-path", os.path.join(REPO, "Cargo.toml"), "--target-dir", tdir]
    if profile == "release":
        cmd.append("--release")
    mk = ensure_fresh(os.path.join(tdir, profile))
    rc, out, err, dt = run_cmd(cmd, timeout=3000)
    if rc != 0:
        sys.stderr.write(err.decode("utf8", "replace")[-4000:])
        raise Inconclusive("build of the CLI (%s) failed" % profile)
    mark_fresh(mk)
    binary = os.path.join(tdir, profile, "jsonlogic")
    log("[build] cli-%s ok (%.1fs)" % (profile, dt))
    return binary


def build_py(profile):
    """Build the CPython extension and assemble a package dir from the working tree's wrapper."""
    tdir = os.path.join(TARGET, "py")
    cmd = ["cargo", "build", "--offline", "--features", "python", "--lib",
           "--manifest-path", os.path.join(REPO, "Cargo.toml"), "--target-dir", tdir]
    if profile == "release":
        cmd.append("--release")
    env = {"PYTHON_SYS_EXECUTABLE": sys.executable}
    mk = ensure_fresh(os.path.join(tdir, profile))
    rc, out, err, dt = run_cmd(cmd, env=env, timeout=3000)
    if rc != 0:
        sys.stderr.write(err.decode("utf8", "replace")[-4000:])
        raise Inconclusive("build of the Python extension (%s) failed" % profile)
    mark_fresh(mk)
    so = os.path.join(tdir, profile, "libjsonlogic_rs.so")
    pkg_root = os.path.join(OUT, "pypkg-" + profile)
    pkg = os.path.join(pkg_root, "jsonlogic_rs")
    shutil.rmtree(pkg_root, ignore_errors=True)
    os.makedirs(pkg)
    shutil.copy(os.path.join(REPO, "py", "jsonlogic_rs", "__init__.py"), os.path.join(pkg, "__init__.py"))
    shutil.copy(so, os.path.join(pkg, "jsonlogic.so"))
    log("[build] py-%s ok (%.1fs)" % (profile, dt))
    return pkg_root


def selftest(binary):
    truth = os.path.join(VERIF, "truth", "js_truth.json")
    tests = os.path.join(REPO, "tests", "data", "tests.json")
    rc, out, err, dt = run_cmd([binary, "selftest", truth, tests], timeout=600)
    text = out.decode("utf8", "replace")
    last = [l for l in text.splitlines() if l.startswith("SELFTEST")]
    if rc != 0:
        sys.stdout.write(text[-3000:])
        raise Inconclusive("oracle self-test failed: the reference semantics disagree with the recorded ground truth")
    log("[oracle] " + (last[-1] if last else "selftest ok"))
    return last[-1] if last else ""


def run_shards(binary, pid, tier, seed, lane, nshards, extra_env=None, timeout=None, scale=None):
    """Run the property's workload as `nshards` OS processes. Returns (reports, failures)."""
    d = os.path.join(OUT, pid, lane)
    shutil.rmtree(d, ignore_errors=True)
    os.makedirs(d, exist_ok=True)
    timeout = timeout or (900 if tier == "quick" else 6 * 3600)
    env = dict(extra_env or {})
    if scale is not None:
        env["JL_SCALE"] = str(scale)

    def one(i):
        outp = os.path.join(d, "shard-%d.json" % i)
        cmd = [binary, "run", pid, "--tier", tier, "--seed", str(seed), "--shard", "%d/%d" % (i, nshards),
               "--lane", lane, "--out", outp]
        rc, out, err, dt = run_cmd(cmd, env=env, timeout=timeout)
        return i, rc, outp, err, dt, cmd

    reports, failures = [], []
    with ThreadPoolExecutor(max_workers=min(nshards, NCPU)) as ex:
        for i, rc, outp, err, dt, cmd in ex.map(one, range(nshards)):
            if rc == 0 and os.path.exists(outp):
                try:
                    reports.append(json.load(open(outp)))
                    continue
                except Exception:
                    pass
            hang = None
            if os.path.exists(outp + ".hang"):
                try:
                    hang = json.load(open(outp + ".hang"))
                except Exception:
                    hang = {"hang": True}
            failures.append({"shard": i, "rc": rc, "stderr": err.decode("utf8", "replace")[-60000:],
                             "wall_s": dt, "cmd": cmd, "lane": lane, "hang": hang})
    return reports, failures


def trace_last_call(failure, env=None):
    """Re-run a crashed shard in trace mode: the last @@CALL without @@RET is the in-flight case."""
    e = dict(env or {})
    e["JL_TRACE"] = "1"
    cmd = [c for c in failure["cmd"]]
    # drop --out so nothing is overwritten
    if "--out" in cmd:
        k = cmd.index("--out")
        cmd = cmd[:k] + ["--out", "/dev/null"] + cmd[k + 2:]
    rc, out, err, dt = run_cmd(cmd, env=e, timeout=1800)
    last = None
    for line in err.decode("utf8", "replace").splitlines():
        if line.startswith("@@CALL "):
            last = line
        elif line.startswith("@@RET "):
            last = None
    return last, rc


# ----------------------------------------------------------------------------------------
# aggregation

def new_agg(pid, tier, seed):
    return {"property": pid, "tier": tier, "seed": seed, "evaluations": 0, "hashes": set(), "nontrivial_total": 0,
            "cells": {}, "monitors": {}, "unjudged_reasons": {}, "violations": [], "samples": [],
            "log_lines_matched": 0, "log_calls_checked": 0, "panics_on_unjudged": 0, "lanes": [],
            "exhaustive_parts": set(), "extra": {}, "model_steps": 0}


def merge_report(agg, rep, lane):
    agg["evaluations"] += rep.get("evaluations", 0)
    agg["nontrivial_total"] += rep.get("nontrivial_total", 0)
    agg["hashes"].update(rep.get("nontrivial_hashes", []))
    for k, v in rep.get("cells", {}).items():
        agg["cells"][k] = agg["cells"].get(k, 0) + v
    for k, v in rep.get("monitors", {}).items():
        m = agg["monitors"].setdefault(k, {"observed": 0, "judged": 0, "unjudged": 0, "violations": 0})
        for f in m:
            m[f] += v.get(f, 0)
    for k, v in rep.get("unjudged_reasons", {}).items():
        agg["unjudged_reasons"][k] = agg["unjudged_reasons"].get(k, 0) + v
    for v in rep.get("violations", []):
        v = dict(v)
        v.setdefault("lane", lane)
        v.setdefault("shard", rep.get("shard", 0))
        v.setdefault("nshards", rep.get("nshards", 1))
        agg["violations"].append(v)
    for s in rep.get("samples", []):
        if len(agg["samples"]) < 12:
            agg["samples"].append(s)
    for f in ("log_lines_matched", "log_calls_checked", "panics_on_unjudged", "model_steps"):
        agg[f] += rep.get(f, 0)
    agg["exhaustive_parts"].update(rep.get("exhaustive_parts", []))
    for k, v in rep.get("extra", {}).items():
        if k.startswith("max_"):
            cur = agg["extra"].get(k)
            val = v.get("max", 0) if isinstance(v, dict) else v
            if cur is None or val > (cur.get("max", 0) if isinstance(cur, dict) else cur):
                agg["extra"][k] = v
        elif isinstance(v, (int, float)) and not isinstance(v, bool):
            agg["extra"][k] = agg["extra"].get(k, 0) + v
        elif isinstance(v, list):
            agg["extra"].setdefault(k, [])
            if len(agg["extra"][k]) < 40:
                agg["extra"][k].extend(v[: 40 - len(agg["extra"][k])])
        elif isinstance(v, dict):
            d = agg["extra"].setdefault(k, {})
            for kk, vv in v.items():
                if isinstance(vv, (int, float)) and not isinstance(vv, bool):
                    d[kk] = d.get(kk, 0) + vv
                else:
                    d[kk] = vv
        else:
            agg["extra"][k] = v


def lane_record(agg, lane, tool, reports, failures, wall):
    agg["lanes"].append({"lane": lane, "tool": tool, "processes": len(reports) + len(failures),
                         "executions": sum(r.get("evaluations", 0) for r in reports),
                         "violations": sum(len(r.get("violations", [])) for r in reports),
                         "abnormal_terminations": len(failures), "wall_s": round(wall, 1)})


def load_known():
    p = os.path.join(VERIF, "known_findings.json")
    if not os.path.exists(p):
        return []
    return json.load(open(p)).get("findings", [])


def match_known(pid, v, known):
    for k in known:
        if k.get("status") != "known" or k.get("property") != pid:
            continue
        if k.get("monitor") and k["monitor"] != v.get("monitor"):
            continue
        if k.get("sig") and not fnmatch.fnmatchcase(v.get("sig", ""), k["sig"]):
            continue
        w = k.get("witness")
        if w is not None and k.get("exact", False):
            if json.dumps(w.get("rule"), sort_keys=True) != json.dumps(v.get("rule"), sort_keys=True) or \
               json.dumps(w.get("data"), sort_keys=True) != json.dumps(v.get("data"), sort_keys=True):
                continue
        return k
    return None


def write_replay(pid, tier, seed, v):
    d = os.path.join(OUT, "replay")
    os.makedirs(d, exist_ok=True)
    body = {"property": pid, "tier": tier, "seed": seed, "monitor": v.get("monitor"), "sig": v.get("sig"),
            "lane": v.get("lane"), "shard": v.get("shard", 0), "nshards": v.get("nshards", 1),
            "rule": v.get("rule"), "data": v.get("data"), "expected": v.get("expected"), "got": v.get("got"),
            "note": v.get("note"), "extra": v.get("extra"), "direct": v.get("direct", True), "count": v.get("count", 1)}
    h = hashlib.sha1(json.dumps([body["monitor"], body["sig"], body["lane"]], sort_keys=True).encode()).hexdigest()[:12]
    path = os.path.join(d, "%s-%s.json" % (pid, h))
    body["replay_path"] = path
    json.dump(body, open(path, "w"), indent=1, ensure_ascii=False)
    return path


def finish(agg, pid, tier, seed, t0, meta, floors):
    """Known-finding filter, verdict lines, evidence file. Returns the exit code."""
    known = load_known()
    # de-duplicate across shards / lanes by (monitor, sig, lane)
    uniq = {}
    for v in agg["violations"]:
        key = (v.get("monitor"), v.get("sig"), v.get("lane"))
        if key in uniq:
            uniq[key]["count"] = uniq[key].get("count", 1) + v.get("count", 1)
            if len(json.dumps(v.get("rule"))) + len(json.dumps(v.get("data"))) < \
               len(json.dumps(uniq[key].get("rule"))) + len(json.dumps(uniq[key].get("data"))):
                c = uniq[key]["count"]
                uniq[key] = dict(v)
                uniq[key]["count"] = c
        else:
            uniq[key] = dict(v)
    unknown, seen_known = [], {}
    for v in uniq.values():
        k = match_known(pid, v, known)
        if k is None:
            unknown.append(v)
        else:
            seen_known.setdefault(k.get("id", k.get("what")), (k, 0))
            seen_known[k.get("id", k.get("what"))] = (k, seen_known[k.get("id", k.get("what"))][1] + v.get("count", 1))
    for kid, (k, n) in seen_known.items():
        log("KNOWN-FINDING: property=%s %s (observed %d times this run)" % (pid, k.get("what"), n))
    unknown.sort(key=lambda v: (v.get("monitor", ""), v.get("sig", "")))
    replay_paths = []
    for v in unknown[:40]:
        path = write_replay(pid, tier, seed, v)
        replay_paths.append(path)
        log("  violation monitor=%s sig=%s lane=%s count=%s\n    rule=%s\n    data=%s\n    expected=%s\n    got=%s" % (
            v.get("monitor"), v.get("sig"), v.get("lane"), v.get("count"),
            json.dumps(v.get("rule"), ensure_ascii=False)[:300], json.dumps(v.get("data"), ensure_ascii=False)[:200],
            json.dumps(v.get("expected"), ensure_ascii=False)[:200], json.dumps(v.get("got"), ensure_ascii=False)[:300]))
        log("VIOLATION property=%s replay=%s" % (pid, path))
    if len(unknown) > 40:
        log("  ... and %d more violation signatures" % (len(unknown) - 40))

    # coverage floors (a run that observed too little is inconclusive, never a pass)
    problems = []
    if agg["evaluations"] < floors.get("evaluations", 1):
        problems.append("only %d evaluations (floor %d)" % (agg["evaluations"], floors.get("evaluations", 1)))
    for m in floors.get("monitors", []):
        if agg["monitors"].get(m, {}).get("judged", 0) <= 0:
            problems.append("monitor %s judged nothing" % m)
    for c in floors.get("cells", []):
        if not any(fnmatch.fnmatchcase(k, c) and n > 0 for k, n in agg["cells"].items()):
            problems.append("coverage cell %s never observed" % c)
    problems.extend(meta.get("inconclusive", []))
    distinct = len(agg["hashes"])
    if distinct < 2:
        problems.append("fewer than 2 distinct non-trivial cases")

    wall = time.time() - t0
    ev = {
        "property_id": pid, "tier": tier, "seed": seed, "level": "exploration",
        "coverage": {
            "evaluations": agg["evaluations"],
            "distinct_nontrivial": distinct,
            "rule": meta["rule"] + " (The distinct count is the size of the union of per-process hash sets, each capped at 60 000 entries: a lower bound.)",
            "samples": agg["samples"][:10] or [{"note": "no sample recorded"}],
            "exhaustive": False,
            "exhaustive_over": sorted(agg["exhaustive_parts"]),
            "nontrivial_total_with_repeats": agg["nontrivial_total"],
            "monitors": agg["monitors"],
            "coverage_cells": dict(sorted(agg["cells"].items())),
            "unjudged_reasons": agg["unjudged_reasons"],
            "lanes": agg["lanes"],
            "log_calls_checked": agg["log_calls_checked"],
            "log_lines_matched": agg["log_lines_matched"],
            "panics_on_unjudged_inputs": agg["panics_on_unjudged"],
            "model_operator_applications": agg["model_steps"],
            "extra": agg["extra"],
            "known_findings_observed": [k.get("id", k.get("what")) for k, _ in seen_known.values()],
            "oracle_selftest": meta.get("selftest", ""),
            "inconclusive_reasons": problems,
        },
        "assumptions": meta["assumptions"],
        "wall_s": round(wall, 2),
        "violations": len(unknown),
    }
    # evidence/<id>.json is what this check observed on /repo as it is now. Runs against a seeded
    # change (pylane/seeded.py) must not overwrite it: they set JL_EVIDENCE_DIR.
    evdir = os.environ.get("JL_EVIDENCE_DIR") or os.path.join(VERIF, "evidence")
    os.makedirs(evdir, exist_ok=True)
    json.dump(ev, open(os.path.join(evdir, pid + ".json"), "w"), indent=1, ensure_ascii=False, sort_keys=False)
    mons = ", ".join("%s:%d/%d" % (k, m["judged"], m["violations"]) for k, m in sorted(agg["monitors"].items()))
    log("[observed] property=%s tier=%s seed=%d evaluations=%d distinct_nontrivial=%d log_lines_matched=%d lanes=%s" % (
        pid, tier, seed, agg["evaluations"], distinct, agg["log_lines_matched"],
        ",".join("%s(%d)" % (l["lane"], l["executions"]) for l in agg["lanes"])))
    log("[monitors judged/violations] " + mons)
    if unknown:
        log("RESULT property=%s VIOLATED (%d signatures) wall=%.1fs" % (pid, len(unknown), wall))
        return 1
    if problems:
        log("INCONCLUSIVE property=%s: %s" % (pid, "; ".join(problems)))
        return 2
    log("RESULT property=%s held on everything observed wall=%.1fs" % (pid, wall))
    return 0


# ----------------------------------------------------------------------------------------

def main(argv):
    import plans
    if len(argv) < 2:
        print(__doc__)
        return 2
    pid = argv[0]
    if pid not in plans.PLANS:
        print("unknown property", pid)
        return 2
    seed = int(os.environ.get("VERIF_SEED", "0") or 0)
    os.makedirs(OUT, exist_ok=True)
    try:
        if argv[1] == "--replay":
            return plans.replay(pid, argv[2])
        tier = argv[1]
        if tier not in ("quick", "thorough"):
            print("tier must be quick or thorough")
            return 2
        t0 = time.time()
        agg = new_agg(pid, tier, seed)
        meta = plans.run_plan(pid, tier, seed, agg)
        return finish(agg, pid, tier, seed, t0, meta, plans.PLANS[pid].get("floors", {}))
    except Inconclusive as e:
        log("INCONCLUSIVE property=%s: %s" % (pid, e))
        return 2
