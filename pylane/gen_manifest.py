"""Regenerates /verif/MANIFEST.json from pylane/plans.py (single source of truth)."""
import json, os, sys
sys.path.insert(0, os.path.dirname(os.path.abspath(__file__)))
import plans, manifest_text as T

def main():
    props = [json.loads(l) for l in open(os.path.join(plans.O.VERIF, "properties.jsonl"))]
    checks, na = [], []
    for p in props:
        pid = p["id"]
        if pid in plans.PLANS and pid not in T.NOT_APPLICABLE:
            t = T.CHECKS[pid]
            checks.append({
                "property_id": pid,
                "quick_cmd": "./check %s quick" % pid,
                "thorough_cmd": "./check %s thorough" % pid,
                "evidence_file": "evidence/%s.json" % pid,
                "replay_cmd_template": "./check %s --replay {path}" % pid,
                "engine": t["engine"],
                "level_claimed": {"category": "exploration", "text": t["text"], "design_ref": "DESIGN.md section 4, " + pid},
                "level_note": t["note"],
                "technique": t["technique"],
            })
        else:
            na.append({"property_id": pid, "reason": T.NOT_APPLICABLE.get(pid, "monitor not built yet (work in progress in this session); not claimed")})
    m = {
        "version": 1,
        "setup_cmd": "./setup.sh",
        "hooks": T.HOOKS,
        "engines": T.ENGINES,
        "checks": checks,
        "notes": T.NOTES,
        "not_applicable": na,
    }
    json.dump(m, open(os.path.join(plans.O.VERIF, "MANIFEST.json"), "w"), indent=1)
    print("MANIFEST.json: %d checks, %d not_applicable" % (len(checks), len(na)))

if __name__ == "__main__":
    main()
