"""Build all lanes once (used by setup.sh). A lane that cannot be built here is reported;
the checks that need it will then say INCONCLUSIVE rather than pass."""
import sys, os
sys.path.insert(0, os.path.dirname(os.path.abspath(__file__)))
import orchestrate as O

def main():
    os.makedirs(O.OUT, exist_ok=True)
    failed = []
    steps = [("relchk", lambda: O.build_lane("relchk")), ("dev", lambda: O.build_lane("dev")),
             ("release", lambda: O.build_lane("release")),
             ("cli-debug", lambda: O.build_cli("debug")), ("cli-release", lambda: O.build_cli("release")),
             ("py-debug", lambda: O.build_py("debug")), ("py-release", lambda: O.build_py("release")),
             ("asan", lambda: O.build_lane("asan")), ("tsan", lambda: O.build_lane("tsan")),
             ("miri", lambda: O.build_miri())]
    only = set(sys.argv[1:])
    for name, fn in steps:
        if only and name not in only:
            continue
        try:
            fn()
        except O.Inconclusive as e:
            print("[setup] lane %s NOT built: %s" % (name, e), flush=True)
            failed.append(name)
    # the oracle must agree with the recorded ground truth before anything is trusted
    try:
        O.selftest(os.path.join(O.TARGET, "relchk", "relchk", "jlmon"))
    except O.Inconclusive as e:
        print("[setup] %s" % e)
        return 1
    # relchk is indispensable; the other lanes degrade to INCONCLUSIVE in the checks that use them
    return 1 if "relchk" in failed else 0

if __name__ == "__main__":
    sys.exit(main())
