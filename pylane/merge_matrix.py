"""Merge the per-change results into seeded/MATRIX.json:
  - the background sweeps (every C02..C16 quick check against every change, on repository copies):
    out/MATRIX-fast-*.json, later files overriding earlier ones;
  - seeded/RESULTS.json (pylane/seeded.py on /repo: the property a change breaks plus related checks,
    including the slow process-level checks C01, C17, C18, C19);
  - the unchanged tree: out/final-<PID>.log of the last full quick run.
Usage: python3 pylane/merge_matrix.py out/MATRIX-fast-1.json out/MATRIX-fast-2.json"""
import json, os, re, sys
V = os.path.dirname(os.path.dirname(os.path.abspath(__file__)))

def main():
    # base: the matrix as committed (rows of earlier sessions); then seeded/RESULTS.json; the files given on
    # the command line come last (the final sweeps of a session override everything older)
    m = {}
    base = os.path.join(V, "seeded", "MATRIX.json")
    if os.path.exists(base) and "--fresh" not in sys.argv:
        m = json.load(open(base))
    res = json.load(open(os.path.join(V, "seeded", "RESULTS.json")))
    for sid, r in res.items():
        for pid, c in r.get("checks", {}).items():
            m.setdefault(sid, {})[pid] = {"exit": c["exit"], "violations": c.get("violation_lines", c.get("violations", 0)), "wall_s": c.get("wall_s")}
    for f in [a for a in sys.argv[1:] if not a.startswith("--")]:
        for sid, row in json.load(open(os.path.join(V, f))).items():
            m.setdefault(sid, {}).update(row)
    ids = [d for d in os.listdir(os.path.join(V, "seeded")) if os.path.exists(os.path.join(V, "seeded", d, "patch.diff"))]
    m = {k: v for k, v in m.items() if k in ids}
    un = {}
    for pid in ["C%02d" % i for i in range(1, 20)]:
        p = os.path.join(V, "out", "final-%s.log" % pid)
        if os.path.exists(p):
            t = open(p).read()
            un[pid] = {"exit": 0 if ("RESULT property=%s held" % pid in t and "\nVIOLATION" not in t) else 1, "violations": len(re.findall(r"^VIOLATION", t, re.M)), "known_findings": len(re.findall(r"^KNOWN-FINDING", t, re.M))}
    m["unchanged"] = un
    json.dump(m, open(os.path.join(V, "seeded", "MATRIX.json"), "w"), indent=0, sort_keys=True)
    print("changes", len(m) - 1, "unchanged checks", len(un), "missing", [i for i in ids if i not in m])

if __name__ == "__main__":
    main()
