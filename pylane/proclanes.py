"""Process-boundary lanes: the real `jsonlogic` binary, the real CPython extension, strace,
valgrind. The oracle is the library reached as a separate process (`jlmon libcall`), i.e.
without bin.rs / __init__.py in the path."""
import hashlib, json, os, re, subprocess, sys, time
from concurrent.futures import ThreadPoolExecutor
import orchestrate as O

ARG_MAX_ONE = 100_000  # a single argv string must stay below MAX_ARG_STRLEN (128 KiB)


def hkey(*parts):
    return hashlib.sha1("\x00".join(parts).encode("utf8", "surrogatepass")).hexdigest()[:16]


def gen_texts(jlmon, pid, seed, count):
    rc, out, err, dt = O.run_cmd([jlmon, "texts", pid, "--seed", str(seed), "--count", str(count)], timeout=600)
    if rc != 0:
        raise O.Inconclusive("jlmon texts failed: " + err.decode("utf8", "replace")[-500:])
    return [json.loads(l) for l in out.decode("utf8").split("\n") if l.strip()]


def libcall(jlmon, pairs, env=None):
    """Oracle: [(rule_text, data_text)] -> [{"logs": [...], "ret": {...}}].
    One jlmon process answers all requests; its CPU-time watchdog answers `{"hang": true}` for a
    call that exceeds the budget and exits, in which case a new process continues with the rest."""
    res = []
    todo = list(pairs)
    restarts = 0
    while todo:
        inp = "\n".join(json.dumps({"rule": r, "data": d}) for r, d in todo) + "\n"
        rc, out, err, dt = O.run_cmd([jlmon, "libcall"], stdin=inp.encode("utf8"), timeout=3600, env=env)
        got, logs, shim = [], [], None
        for line in out.decode("utf8", "replace").split("\n"):
            if line.startswith("@@SHIM "):
                shim = json.loads(line[7:])
            elif line.startswith("@@RET "):
                got.append({"logs": logs, "ret": json.loads(line[6:])})
                if shim is not None:
                    got[-1]["shim"] = shim
                logs, shim = [], None
            elif line != "" or logs:
                logs.append(line)
        res.extend(got)
        if rc == 0 and len(got) == len(todo):
            break
        if got and "hang" in got[-1]["ret"] and restarts < 50:
            restarts += 1
            todo = todo[len(got):]
            continue
        if rc not in (0, 3) and got is not None and restarts < 50 and len(got) < len(todo):
            # the library process died (abort / stack overflow) inside request number len(got)
            res.append({"logs": logs, "ret": {"died": rc, "stderr": err.decode("utf8", "replace")[-300:]}})
            restarts += 1
            todo = todo[len(got) + 1:]
            continue
        raise O.Inconclusive("jlmon libcall failed rc=%s after %d answers: %s" % (rc, len(res), err.decode("utf8", "replace")[-500:]))
    if len(res) != len(pairs):
        raise O.Inconclusive("libcall answered %d of %d requests" % (len(res), len(pairs)))
    return res


INVALID_TEXTS = ["", " ", "{", "}", "[1,", "[1 2]", "{\"a\":}", "{'a':1}", "'x'", "NaN", "Infinity", "-Infinity", "nul", "tru",
                 "1 2", "1,", "[1],", "{\"a\":1}}", "\ufeff1", "01", "1.", ".5", "+1", "0x10", "\"unterminated", "\"bad\\escape\"",
                 "\"\\ud800\"", "[\"tab\tin string\"]", "{\"a\" 1}", "{1:2}", "[,]", "undefined", "\"\\u12\"", "--1", "1e", "1e+"]


# texts that are invalid as a whole although a part of them is valid JSON (multi-line streams,
# several documents), and malformed texts with multi-byte characters at every small offset
# (an error path that slices or echoes the input must not panic)
INVALID_TEXTS += ["\"first\"\n\"second\"", "1\n2", "garbage\n{\"a\":1}", "{\"a\":1}\n{\"a\":2}", "[1,\n2]\n3", "\"log line\"\n\"result\"\n", "{\"a\":1} x", "x\n1", "null\nnull"]
MULTIBYTE_MALFORMED = ["{\"cat\": [\"" + "a" * k + "\u00e9\u65e5\U0001F600" * 12 for k in range(0, 70)] + \
                      ["[" + "\"" + "\u00e9" * k + "\", " for k in (18, 19, 20, 37, 38, 39, 40, 60, 61, 62, 63, 64)]


def _eval_error_texts():
    """Rules whose *evaluation* fails while holding a long multi-byte value (an error message that quotes,
    shortens or measures it), at every alignment of a 9-byte group of a 4-, a 3- and a 2-byte character."""
    out = []
    for n in (30, 60, 300):
        for k in range(9):
            sv = "a" * k + "\U0001F600\u65e5\u00e9" * n
            js = json.dumps(sv, ensure_ascii=False)
            for rule in ('{"+":[%s]}' % js, '{"*":[2,%s]}' % js, '{"-":[%s,1]}' % js, '{"substr":[1,%s]}' % js, '{"in":[1,%s]}' % js, '{"var":[[%s]]}' % js, '{"missing_some":[%s,["a"]]}' % js,
                         '{"map":[%s,1]}' % js, '{"all":[{"k":%s},1]}' % js, '{"/":[1,[%s,2]]}' % js, '{"max":[1,{"k":%s}]}' % js, '{"reduce":[%s,1,0]}' % js, '{"==":[%s]}' % js, '{"<":%s}' % js):
                out.append((rule, "null"))
            out.append(('{"+":[{"var":"v"}]}', json.dumps({"v": sv}, ensure_ascii=False)))
            out.append(('{"in":[1,{"var":"v"}]}', json.dumps({"v": {"k": sv}}, ensure_ascii=False)))
    return out


EVAL_ERROR_TEXTS = _eval_error_texts()


def deep(n, open_="[", close="]", leaf="1"):
    return open_ * n + leaf + close * n


# ----------------------------------------------------------------------------------------
# CLI

def run_cli(binary, rule, data, form, timeout=40, env=None):
    """form: 'arg' (data as 2nd argument), 'stdin' (no 2nd argument), 'dash' (2nd argument '-')."""
    argv = [binary]
    stdin = None
    need_dd = rule.startswith("-") or (form == "arg" and data.startswith("-"))
    if need_dd:
        argv.append("--")
    argv.append(rule)
    if form == "arg":
        argv.append(data)
    else:
        stdin = data.encode("utf8", "surrogatepass")
        if form == "dash":
            # after `--` a lone '-' is still the positional value "-"
            argv.append("-")
    try:
        e = None
        if env:
            e = dict(os.environ)
            e.update(env)
        p = subprocess.run(argv, input=stdin if stdin is not None else b"", stdout=subprocess.PIPE, stderr=subprocess.PIPE, timeout=timeout, env=e)
        return p.returncode, p.stdout, p.stderr
    except subprocess.TimeoutExpired:
        return None, b"", b"timeout"
    except OSError as e:
        return "oserror", b"", str(e).encode()
    except ValueError as e:  # embedded NUL in argv: not deliverable through exec
        return "undeliverable", b"", str(e).encode()


def judge_cli(pid, rule, data, form, profile, oracle, rc, out, err):
    """Returns (violations, cells). Violations are dicts for the aggregator."""
    vio, cells = [], []
    lane = "cli-" + profile
    FM = "c18.faithful" if pid == "C18" else pid.lower() + ".cli-faithful"
    def V(monitor, sig, expected, got, note):
        vio.append({"monitor": monitor, "sig": sig, "rule": rule, "data": data, "expected": expected, "got": got,
                    "note": note, "lane": lane, "direct": False, "count": 1, "extra": {"form": form}})
    text_out = out.decode("utf8", "replace")
    text_err = err.decode("utf8", "replace")
    got = {"exit": rc, "stdout": text_out[:2000], "stderr": text_err[:600]}
    # ---- C01 at the process boundary: an exit status 0 / 1, never a signal, 101 or a panic message
    if rc is None:
        V("c01.cli", "cli-hang:%s" % form, "termination", got, "the command did not terminate within the watchdog (inconclusive for C01's bounded restatement, reported)")
    elif isinstance(rc, int) and (rc < 0 or rc not in (0, 1) or "panicked at" in text_err):
        V("c01.cli", "cli-abnormal-exit:%s:%s" % (rc, form), "exit status 0 or 1", got, "the command ended with a signal / panic / unexpected exit status")
    if pid == "C01" or not isinstance(rc, int) or rc < 0 or rc == 101:
        return vio, cells
    ret = oracle["ret"]
    lines = text_out.split("\n")
    if lines and lines[-1] == "":
        lines.pop()
    if "ok" in ret:
        want = oracle["logs"] + [ret["ok"]]
        cells.append("cli:%s:ok" % form)
        if rc != 0:
            V(FM, "exit-nonzero-on-success:%s" % form, {"exit": 0, "stdout_lines": want}, got, "the library evaluates this input but the command failed")
        elif lines != want:
            V(FM, "stdout-differs:%s" % form, {"exit": 0, "stdout_lines": want}, got, "stdout is not (log lines, then exactly one line with the library's serialisation of the result)")
        else:
            try:
                json.loads(lines[-1])
            except Exception:
                V(FM, "result-not-json:%s" % form, "valid JSON on the last line", got, "the printed result is not valid JSON")
    elif "panic" in ret or "hang" in ret or "died" in ret:
        cells.append("cli:%s:library-%s" % (form, "panic" if "panic" in ret else "hang" if "hang" in ret else "died"))
    else:
        cells.append("cli:%s:%s" % (form, "parse-error" if "parse_error" in ret else "eval-error"))
        want = oracle["logs"] if "err" in ret else []
        if rc == 0:
            V(FM, "exit-zero-on-failure:%s" % form, {"exit": "non-zero", "stdout_lines": want}, got, "parsing or evaluation fails in the library but the command exited 0")
        if lines != want:
            V(FM, "stdout-on-failure:%s" % form, {"exit": "non-zero", "stdout_lines": want}, got, "on failure stdout must hold only the log lines emitted before the failure (no result line)")
    return vio, cells


def cli_lane(pid, tier, seed, agg, meta, profiles=("debug", "release")):
    jlmon = O.build_lane("relchk")
    count = {"quick": 500, "thorough": 12000}[tier]
    cases = gen_texts(jlmon, pid, seed, count)
    pairs = [(c["rule"], c["data"]) for c in cases]
    classes = [c["cls"] for c in cases]
    # invalid texts on either side
    for t in INVALID_TEXTS:
        pairs.append((t, "null")); classes.append("invalid-rule")
        pairs.append(("{\"var\":\"a\"}", t)); classes.append("invalid-data")
    for t in MULTIBYTE_MALFORMED:
        pairs.append((t, "null")); classes.append("invalid-rule-multibyte")
        pairs.append(("{\"var\":\"a\"}", t)); classes.append("invalid-data-multibyte")
    for r_, d_ in (EVAL_ERROR_TEXTS[::5] if tier == "quick" else EVAL_ERROR_TEXTS):
        pairs.append((r_, d_)); classes.append("evaluation-error-long-multibyte")
    # over-limit nesting: must be an orderly failure (exit 1), never a stack overflow
    for n in (129, 200, 1000, 20000, 45000):
        pairs.append((deep(n), "null")); classes.append("over-limit-rule")
        pairs.append(("{\"var\":\"\"}", deep(n))); classes.append("over-limit-data")
        pairs.append((deep(n // 2 + 1, "{\"!\":[", "]}"), "null")); classes.append("over-limit-rule")
    pairs.append(("{\"var\":\"\"}", deep(200000))); classes.append("over-limit-data-stdin-only")
    # large multi-byte data (beyond pipe / read-block sizes), every byte alignment
    for size in (70_000, 140_000, 300_000):
        for k in range(4):
            body = "a" * k + "\U0001F600\u65e5\u00e9" * (size // 9)
            pairs.append(("{\"substr\":[{\"var\":\"k\"},-5]}", json.dumps({"k": body, "n": [1, 2]}, ensure_ascii=False))); classes.append("big-multibyte-data")
            pairs.append(("{\"var\":\"n.1\"}", json.dumps({"k": body, "n": [1, 2]}, ensure_ascii=False) + "\n")); classes.append("big-multibyte-data")
    pairs.append(("{\"cat\":[{\"var\":\"\"}]}", deep(128))); classes.append("at-limit")
    pairs.append(("{\"cat\":[{\"var\":\"\"}]}", deep(127))); classes.append("at-limit")
    oracle = libcall(jlmon, pairs)
    for profile in profiles:
        binary = O.build_cli(profile)
        t0 = time.time()
        jobs = []
        for i, (r, d) in enumerate(pairs):
            if len(r.encode("utf8")) > ARG_MAX_ONE or "\x00" in r:
                continue
            forms = ["arg", "stdin", "dash"]
            if len(d.encode("utf8")) > ARG_MAX_ONE or "\x00" in d:
                forms = ["stdin", "dash"]
            if tier == "quick" and classes[i] == "random":
                forms = [forms[(i + seed) % len(forms)]]
            if pid == "C01" and classes[i] in ("matrix", "random", "random-literal", "deep"):
                # the supply form matters to C18; for totality one form per input is enough
                forms = [forms[(i + seed) % len(forms)]]
            for f in forms:
                jobs.append((i, f))

        def one(job):
            i, f = job
            r, d = pairs[i]
            rc, out, err = run_cli(binary, r, d, f)
            return i, f, rc, out, err

        rep = {"evaluations": 0, "monitors": {}, "violations": [], "cells": {}, "nontrivial_hashes": [], "samples": [], "nontrivial_total": 0}
        mons = rep["monitors"]
        hashes = set()
        with ThreadPoolExecutor(max_workers=O.NCPU) as ex:
            for i, f, rc, out, err in ex.map(one, jobs):
                r, d = pairs[i]
                rep["evaluations"] += 1
                vio, cells = judge_cli(pid, r, d, f, profile, oracle[i], rc, out, err)
                for name in (["c01.cli"] if pid == "C01" else ["c01.cli", "c18.faithful" if pid == "C18" else pid.lower() + ".cli-faithful"]):
                    m = mons.setdefault(name, {"observed": 0, "judged": 0, "unjudged": 0, "violations": 0})
                    m["observed"] += 1
                    m["judged"] += 1
                for v in vio:
                    mons[v["monitor"]]["violations"] += 1
                    rep["violations"].append(v)
                for c in cells + ["class:" + classes[i]]:
                    rep["cells"][c] = rep["cells"].get(c, 0) + 1
                nontrivial = r.lstrip().startswith("{") or "ok" not in oracle[i]["ret"]
                if nontrivial:
                    rep["nontrivial_total"] += 1
                    hashes.add(hkey(r, d, f))
                if len(rep["samples"]) < 3 and oracle[i]["logs"] and rc == 0:
                    rep["samples"].append({"argv": ["jsonlogic", r[:200], d[:200]], "form": f, "exit": rc, "stdout": out.decode("utf8", "replace")[:300]})
        # chain law: cli(r2, stdin = cli(r1, d).stdout) == library apply(r2, parse(apply(r1, d))) for log-free r1
        if pid == "C18":
            nchain = 60 if tier == "quick" else 600
            ok_pairs = [((r, d), o) for (r, d), o in zip(pairs, oracle) if "ok" in o["ret"] and len(r) < 5000 and len(d) < 5000 and "\x00" not in r + d]
            quiet = [x for x in ok_pairs if not x[1]["logs"]][:nchain]
            noisy = [x for x in ok_pairs if x[1]["logs"]][: nchain // 3]
            chain_pairs = [x[0] for x in quiet + noisy]
            second_rules = ["{\"var\":\"\"}", "{\"cat\":[{\"var\":\"\"},\"!\"]}", "{\"!!\":[{\"var\":\"\"}]}", "{\"merge\":[{\"var\":\"\"},[1.0]]}", "{\"==\":[{\"var\":\"\"},{\"var\":\"\"}]}", "{\"+\":[{\"var\":\"\"}]}"]
            orc1 = libcall(jlmon, chain_pairs)
            # what the second invocation receives on stdin is the WHOLE stdout of the first: for a
            # logging first stage that is several lines, i.e. not one JSON document
            second = [(second_rules[k % len(second_rules)], "".join(l + "\n" for l in o["logs"] + [o["ret"]["ok"]])) for k, o in enumerate(orc1)]
            orc2 = libcall(jlmon, second)
            m = mons.setdefault("c18.chain", {"observed": 0, "judged": 0, "unjudged": 0, "violations": 0})
            for (r1, d1), (r2, _), o2 in zip(chain_pairs, second, orc2):
                rc1, out1, err1 = run_cli(binary, r1, d1, "arg")
                rc2, out2, err2 = run_cli(binary, r2, out1.decode("utf8", "replace"), "stdin")
                rep["evaluations"] += 2
                m["observed"] += 1
                m["judged"] += 1
                want = (o2["logs"] + [o2["ret"]["ok"]]) if "ok" in o2["ret"] else None
                lines = out2.decode("utf8", "replace").split("\n")
                if lines and lines[-1] == "":
                    lines.pop()
                ok = (want is not None and rc2 == 0 and lines == want) or (want is None and rc2 not in (0, None))
                hashes.add(hkey("chain", r1, d1, r2))
                rep["cells"]["chain"] = rep["cells"].get("chain", 0) + 1
                if not ok:
                    m["violations"] += 1
                    rep["violations"].append({"monitor": "c18.chain", "sig": "chain", "rule": r2, "data": {"first_rule": r1, "first_data": d1},
                                              "expected": {"stdout_lines": want}, "got": {"exit1": rc1, "exit2": rc2, "stdout2": out2.decode("utf8", "replace")[:500], "stderr2": err2.decode("utf8", "replace")[:300]},
                                              "note": "piping the output into a second invocation differs from evaluating on the parsed output", "lane": "cli-" + profile, "direct": False, "count": 1})
        # environment independence: the command's output is fixed by the two texts, so it must not change
        # when every environment variable it asks for exists, the clock jumps / stands still, random
        # bytes are constant and read-only opens fail (LD_PRELOAD interposer, armed for the whole process)
        if pid == "C18" and profile == profiles[-1]:
            so = build_shim()
            nenv = 120 if tier == "quick" else 1500
            pick = [i for i, (r, d) in enumerate(pairs) if len(r) < 5000 and len(d) < 5000 and "\x00" not in r + d][:nenv]
            m = mons.setdefault("c18.environment-independence", {"observed": 0, "judged": 0, "unjudged": 0, "violations": 0})

            def env_one(i):
                r, d = pairs[i]
                f = ["arg", "stdin", "dash"][i % 3]
                base = run_cli(binary, r, d, f)
                outs = []
                for md in ("A", "B"):
                    extra = {"LD_PRELOAD": so, "JL_SHIM_ALWAYS": "1", "JL_SHIM_MODE": md, "JSONLOGIC": "1", "NO_COLOR": "1", "CLICOLOR_FORCE": "1", "RUST_LOG": "trace", "LANG": "tr_TR.UTF-8", "COLUMNS": "20"}
                    outs.append((md, run_cli(binary, r, d, f, env=extra)))
                return i, f, base, outs

            with ThreadPoolExecutor(max_workers=O.NCPU) as ex:
                for i, f, base, outs in ex.map(env_one, pick):
                    r, d = pairs[i]
                    for md, got in outs:
                        rep["evaluations"] += 1
                        m["observed"] += 1
                        if base[0] is None or got[0] is None:
                            m["unjudged"] += 1
                            continue
                        m["judged"] += 1
                        hashes.add(hkey("env", r, d, f))
                        if (got[0], got[1]) != (base[0], base[1]):
                            m["violations"] += 1
                            rep["violations"].append({"monitor": "c18.environment-independence", "sig": "output-depends-on-environment:mode-%s:%s" % (md, f), "rule": r, "data": d,
                                                      "expected": {"exit": base[0], "stdout": base[1].decode("utf8", "replace")[:400]}, "got": {"exit": got[0], "stdout": got[1].decode("utf8", "replace")[:400], "stderr": got[2].decode("utf8", "replace")[:300]},
                                                      "note": "the command's exit status / standard output changed when the environment variables, the clock, the random source and read-only opens answered differently (mode %s)" % md,
                                                      "lane": "cli-" + profile, "direct": False, "count": 1})
        # exit status 0 must mean that the result line was delivered: with a stdout that cannot be
        # written (/dev/full) a successful evaluation must not end with status 0
        if pid == "C18":
            m = mons.setdefault("c18.write-failure", {"observed": 0, "judged": 0, "unjudged": 0, "violations": 0})
            wf = [(r, d) for (r, d), o in zip(pairs, oracle) if "ok" in o["ret"] and len(r) < 2000 and len(d) < 2000 and "\x00" not in r + d][:12]
            for r, d in wf:
                argv = [binary] + (["--"] if r.startswith("-") or d.startswith("-") else []) + [r, d]
                try:
                    with open("/dev/full", "wb") as full:
                        p = subprocess.run(argv, stdin=subprocess.DEVNULL, stdout=full, stderr=subprocess.PIPE, timeout=30)
                    rc = p.returncode
                except subprocess.TimeoutExpired:
                    rc = None
                rep["evaluations"] += 1
                m["observed"] += 1
                m["judged"] += 1
                hashes.add(hkey("devfull", r, d))
                rep["cells"]["stdout-unwritable"] = rep["cells"].get("stdout-unwritable", 0) + 1
                if rc == 0:
                    m["violations"] += 1
                    rep["violations"].append({"monitor": "c18.write-failure", "sig": "exit-zero-without-result-line", "rule": r, "data": d, "expected": "a non-zero exit status when the result line cannot be written",
                                              "got": {"exit": rc}, "note": "exit status 0 although no result line was delivered (stdout = /dev/full)", "lane": "cli-" + profile, "direct": False, "count": 1})
            # the same with a reader that has gone away (stdout = a pipe whose read end is closed): dying of
            # SIGPIPE or failing are both fine, status 0 is not - nothing was delivered
            for r, d in wf:
                argv = [binary] + (["--"] if r.startswith("-") or d.startswith("-") else []) + [r, d]
                rfd, wfd = os.pipe()
                os.close(rfd)
                try:
                    p = subprocess.run(argv, stdin=subprocess.DEVNULL, stdout=wfd, stderr=subprocess.PIPE, timeout=30)
                    rc = p.returncode
                except subprocess.TimeoutExpired:
                    rc = None
                finally:
                    os.close(wfd)
                rep["evaluations"] += 1
                m["observed"] += 1
                m["judged"] += 1
                hashes.add(hkey("closed-pipe", r, d))
                rep["cells"]["stdout-reader-gone"] = rep["cells"].get("stdout-reader-gone", 0) + 1
                if rc == 0:
                    m["violations"] += 1
                    rep["violations"].append({"monitor": "c18.write-failure", "sig": "exit-zero-without-result-line:closed-pipe", "rule": r, "data": d, "expected": "a non-zero exit status (or death by SIGPIPE) when the result line cannot be written",
                                              "got": {"exit": rc}, "note": "exit status 0 although no result line was delivered (stdout = a pipe without a reader)", "lane": "cli-" + profile, "direct": False, "count": 1})
        # the result goes to a terminal: what is printed is still one line holding the serialisation
        if pid == "C18":
            import pty as _pty
            m = mons.setdefault("c18.tty-stdout", {"observed": 0, "judged": 0, "unjudged": 0, "violations": 0})
            tty_out = [((r, d), o) for (r, d), o in zip(pairs, oracle) if len(r) < 1500 and len(d) < 1500 and "\x00" not in r + d and "ok" in o["ret"] and len(o["ret"]["ok"]) < 1500][:: max(1, len(pairs) // 60)][: (24 if tier == "quick" else 120)]
            extra = [("{\"var\":\"\"}", "{\"a\":[1,2,{\"b\":null}],\"c\":\"x\"}"), ("{\"merge\":[[1,2],[3]]}", "null"), ("{\"map\":[[1,2],{\"log\":{\"var\":\"\"}}]}", "null"), ("{\"cat\":[\"\u00e9\",\"\U0001F600\"]}", "null"), ("{\"var\":\"\"}", "[]"), ("{\"var\":\"\"}", "{}")]
            tty_out += list(zip(extra, libcall(jlmon, extra)))
            for (r, d), o in tty_out:
                argv = [binary] + (["--"] if r.startswith("-") or d.startswith("-") else []) + [r, d]
                master, slave = _pty.openpty()
                try:
                    p = subprocess.Popen(argv, stdin=subprocess.DEVNULL, stdout=slave, stderr=subprocess.PIPE, close_fds=True)
                    os.close(slave)
                    chunks = []
                    while True:
                        try:
                            b = os.read(master, 65536)
                        except OSError:
                            break
                        if not b:
                            break
                        chunks.append(b)
                    err = p.stderr.read()
                    rc = p.wait(timeout=40)
                    out = b"".join(chunks).replace(b"\r\n", b"\n")
                except subprocess.TimeoutExpired:
                    p.kill()
                    rc, out, err = None, b"", b"timeout"
                finally:
                    try:
                        os.close(master)
                    except OSError:
                        pass
                rep["evaluations"] += 1
                m["observed"] += 1
                m["judged"] += 1
                hashes.add(hkey("tty-out", r, d))
                rep["cells"]["stdout:tty"] = rep["cells"].get("stdout:tty", 0) + 1
                vio, _ = judge_cli(pid, r, d, "arg", profile, o, rc, out, err)
                for v in vio:
                    if v["monitor"].startswith("c18."):
                        v["monitor"] = "c18.tty-stdout"
                        v["sig"] = "tty:" + v["sig"]
                        v["note"] += " [standard output is a terminal]"
                        m["violations"] += 1
                    rep["violations"].append(v)
        # a producer that is slow or delivers the document in pieces: nothing arrives for 1.2 s, or the
        # text arrives in three writes with pauses (the cuts fall anywhere, also inside a character)
        if pid == "C18":
            m = mons.setdefault("c18.slow-stdin", {"observed": 0, "judged": 0, "unjudged": 0, "violations": 0})
            slow_pairs = [((r, d), o) for (r, d), o, c in zip(pairs, oracle, classes) if 2 < len(d) < 4000 and "\x00" not in r + d and len(r) < 4000][:: max(1, len(pairs) // 40)][: (8 if tier == "quick" else 40)]
            slow_pairs += [(("{\"var\":\"\"}", "{\"k\":\"\u00e9\u65e5\U0001F600\"}"), None), (("{\"cat\":[{\"var\":\"a\"},\"!\"]}", "{\"a\": [1, 2,\n 3]}\n"), None)]
            need = [p_ for p_, o in slow_pairs if o is None]
            got_or = libcall(jlmon, need) if need else []
            it = iter(got_or)
            slow_pairs = [(p_, o if o is not None else next(it)) for p_, o in slow_pairs]

            def slow_one(job):
                (r, d), o, mode, form = job
                argv = [binary] + (["--"] if r.startswith("-") else []) + [r] + (["-"] if form == "dash" else [])
                raw = d.encode("utf8", "surrogatepass")
                try:
                    p = subprocess.Popen(argv, stdin=subprocess.PIPE, stdout=subprocess.PIPE, stderr=subprocess.PIPE)
                    try:
                        if mode == "late":
                            time.sleep(1.2)
                            p.stdin.write(raw)
                        else:
                            a, b = max(1, len(raw) // 3), max(2, 2 * len(raw) // 3)
                            for piece in (raw[:a], raw[a:b], raw[b:]):
                                p.stdin.write(piece)
                                p.stdin.flush()
                                time.sleep(0.35)
                        p.stdin.close()
                    except (BrokenPipeError, OSError):
                        pass
                    out = p.stdout.read()
                    err = p.stderr.read()
                    rc = p.wait(timeout=40)
                except subprocess.TimeoutExpired:
                    p.kill()
                    rc, out, err = None, b"", b"timeout"
                return job, rc, out, err

            jobs = [(pd, o, mode, form) for (pd, o) in slow_pairs for mode in ("late", "pieces") for form in ("stdin", "dash")]
            with ThreadPoolExecutor(max_workers=4 * O.NCPU) as ex:
                for job, rc, out, err in ex.map(slow_one, jobs):
                    (r, d), o, mode, form = job
                    rep["evaluations"] += 1
                    m["observed"] += 1
                    m["judged"] += 1
                    hashes.add(hkey("slow", r, d, mode, form))
                    rep["cells"]["stdin:%s" % mode] = rep["cells"].get("stdin:%s" % mode, 0) + 1
                    vio, _ = judge_cli(pid, r, d, form, profile, o, rc, out, err)
                    for v in vio:
                        if v["monitor"].startswith("c18."):
                            v["monitor"] = "c18.slow-stdin"
                            v["sig"] = "%s:%s" % (mode, v["sig"])
                            v["note"] += " [stdin from a producer that " + ("wrote nothing for 1.2 s" if mode == "late" else "delivered the text in three pieces with pauses") + "]"
                        if v["monitor"] == "c18.slow-stdin":
                            m["violations"] += 1
                        rep["violations"].append(v)
        # data typed on a terminal: stdin is a tty (pty), not a pipe or a file
        if pid == "C18":
            import pty
            m = mons.setdefault("c18.tty-stdin", {"observed": 0, "judged": 0, "unjudged": 0, "violations": 0})
            tty_pairs = [(r, d) for (r, d), c in zip(pairs, classes) if c in ("fixed", "falsy-data", "invalid-data") and len(d) < 1500 and "\x00" not in r + d
                         and not any(ord(ch) < 32 and ch not in "\n\t" for ch in d) and "\x7f" not in d][: (40 if tier == "quick" else 200)]
            tty_oracle = libcall(jlmon, [(r, d + "\n") for r, d in tty_pairs])
            for (r, d), o in zip(tty_pairs, tty_oracle):
                for form in ("stdin", "dash"):
                    argv = [binary] + (["--"] if r.startswith("-") else []) + [r] + (["-"] if form == "dash" else [])
                    master, slave = pty.openpty()
                    try:
                        p = subprocess.Popen(argv, stdin=slave, stdout=subprocess.PIPE, stderr=subprocess.PIPE, close_fds=True)
                        os.close(slave)
                        # canonical mode: every line ends with newline; Ctrl-D at the start of a line is end of input
                        os.write(master, (d + "\n").encode("utf8") + b"\x04")
                        try:
                            out, err = p.communicate(timeout=30)
                            rc = p.returncode
                        except subprocess.TimeoutExpired:
                            p.kill()
                            out, err = p.communicate()
                            rc = None
                    finally:
                        os.close(master)
                    rep["evaluations"] += 1
                    m["observed"] += 1
                    m["judged"] += 1
                    vio, cells = judge_cli(pid, r, d + "\n", form, profile, o, rc, out, err)
                    hashes.add(hkey("tty", r, d, form))
                    rep["cells"]["tty-stdin"] = rep["cells"].get("tty-stdin", 0) + 1
                    for v in vio:
                        v["monitor"] = "c18.tty-stdin" if v["monitor"] != "c01.cli" else v["monitor"]
                        v["sig"] = "tty:" + v["sig"]
                        mons.setdefault(v["monitor"], {"observed": 0, "judged": 0, "unjudged": 0, "violations": 0})["violations"] += 1
                        rep["violations"].append(v)
        rep["nontrivial_hashes"] = sorted(hashes)
        O.merge_report(agg, rep, "cli-" + profile)
        O.lane_record(agg, "cli-" + profile, "real jsonlogic binary (%s profile) vs library-as-a-process" % profile, [rep], [], time.time() - t0)
    # informational probes outside the stated domain (never verdicts)
    agg["extra"].setdefault("informational", {})["note"] = "non-UTF-8 argv and a closed stdout are outside the properties' stated domain and are not judged"


# ----------------------------------------------------------------------------------------
# resource amplification (C01): small rules whose memory demand is astronomically large

AMPLIFY = [
    # (name, rule, data, demand) - demand "huge" = >= 2^40 bytes: no machine can satisfy it, the address-space
    # limit below only makes the inevitable allocation failure cheap and safe to observe
    ("cat-doubling-40", {"reduce": [{"var": ""}, {"cat": [{"var": "accumulator"}, {"var": "accumulator"}]}, "x"]}, [0] * 40, "huge"),
    ("merge-doubling-40", {"reduce": [{"var": ""}, {"merge": [{"var": "accumulator"}, {"var": "accumulator"}]}, [1]]}, [0] * 40, "huge"),
    ("cat-doubling-12", {"reduce": [{"var": ""}, {"cat": [{"var": "accumulator"}, {"var": "accumulator"}]}, "x"]}, [0] * 12, "small"),
    ("merge-doubling-12", {"reduce": [{"var": ""}, {"merge": [{"var": "accumulator"}, {"var": "accumulator"}]}, [1]]}, [0] * 12, "small"),
    ("map-in-map-300", {"map": [{"var": ""}, {"map": [[1, 2, 3, 4, 5, 6, 7, 8, 9, 10], {"cat": [{"var": ""}, "-"]}]}]}, list(range(300)), "small"),
    ("cat-of-cats", {"cat": [{"cat": [{"var": "s"}, {"var": "s"}]}, {"cat": [{"var": "s"}, {"var": "s"}]}]}, {"s": "\u00e9" * 100000}, "small"),
    ("reduce-square", {"reduce": [{"var": ""}, {"cat": [{"var": "accumulator"}, "0123456789"]}, ""]}, [0] * 3000, "small"),
]


def amplify_lane(pid, tier, seed, agg, meta):
    """Each case in its own library process under RLIMIT_AS (3 GiB) and RLIMIT_CPU (120 s)."""
    import resource, signal as _sig
    jlmon = O.build_lane("relchk")
    t0 = time.time()
    rep = {"evaluations": 0, "monitors": {"c01.amplification": {"observed": 0, "judged": 0, "unjudged": 0, "violations": 0}}, "violations": [], "cells": {},
           "nontrivial_hashes": [], "samples": [], "nontrivial_total": 0}

    def limits():
        resource.setrlimit(resource.RLIMIT_AS, (3 << 30, 3 << 30))
        resource.setrlimit(resource.RLIMIT_CPU, (120, 120))
        resource.setrlimit(resource.RLIMIT_CORE, (0, 0))

    def one(case):
        name, rule, data, demand = case
        inp = (json.dumps({"rule": json.dumps(rule), "data": json.dumps(data)}) + "\n").encode()
        env = dict(O.BASE_ENV)
        env["JL_CPU_BUDGET_S"] = "100"
        env["RUST_BACKTRACE"] = "0"
        try:
            p = subprocess.run([jlmon, "libcall"], input=inp, stdout=subprocess.PIPE, stderr=subprocess.PIPE, preexec_fn=limits, env=env, timeout=300)
            return case, p.returncode, p.stdout.decode("utf8", "replace"), p.stderr.decode("utf8", "replace")
        except subprocess.TimeoutExpired:
            return case, None, "", "timeout"

    with ThreadPoolExecutor(max_workers=4) as ex:
        for (name, rule, data, demand), rc, out, err in ex.map(one, AMPLIFY):
            rep["evaluations"] += 1
            m = rep["monitors"]["c01.amplification"]
            m["observed"] += 1
            m["judged"] += 1
            rep["nontrivial_hashes"].append(hkey("amplify", name))
            rep["nontrivial_total"] += 1
            answered = "@@RET " in out and '"hang"' not in out
            rep["cells"]["amplify:%s:%s" % (demand, "answered" if answered else "died")] = rep["cells"].get("amplify:%s:%s" % (demand, "answered" if answered else "died"), 0) + 1
            if answered and rc == 0:
                continue
            kind = "abort-on-allocation-failure" if "memory allocation of" in err else ("cpu-budget" if '"hang"' in out or rc == 3 else "died:%s" % rc)
            m["violations"] += 1
            rep["violations"].append({"monitor": "c01.amplification", "sig": "%s:%s" % (kind, name), "rule": rule, "data": data if len(json.dumps(data)) < 500 else "%d elements" % len(data),
                                      "expected": "a value or an error", "got": {"exit": rc, "stderr": err[-300:]},
                                      "note": "the process evaluating this rule did not end with a value or an error (3 GiB address space, 120 s CPU)", "lane": "amplify", "direct": False, "count": 1})
    rep["samples"].append({"amplification_cases": [c[0] for c in AMPLIFY]})
    O.merge_report(agg, rep, "amplify")
    O.lane_record(agg, "amplify", "library-as-a-process under RLIMIT_AS=3GiB / RLIMIT_CPU=120s", [rep], [], time.time() - t0)


# ----------------------------------------------------------------------------------------
# strace (C17 H5): the command's only externally visible effects are writes to fd 1 / 2

DENY = re.compile(r"^(socket|connect|bind|listen|accept4?|sendto|sendmsg|unlink(at)?|rename(at2?)?|mkdir(at)?|rmdir|link(at)?|symlink(at)?|"
                  r"chmod|fchmod(at)?|chown|fchown(at)?|truncate|ftruncate|clone3?|fork|vfork|kill|tkill|tgkill|ptrace|mount|"
                  r"setxattr|creat|mknod(at)?|shmget|shmat|msgget|semget|io_uring_setup|memfd_create|pwrite64|writev|pwritev2?|sendfile|copy_file_range)\(")


def strace_lane(pid, tier, seed, agg, meta):
    jlmon = O.build_lane("relchk")
    binary = O.build_cli("release")
    cases = gen_texts(jlmon, "C17", seed, 40 if tier == "quick" else 300)
    pairs = [(c["rule"], c["data"]) for c in cases if len(c["rule"]) < 20000 and "\x00" not in c["rule"] + c["data"]]
    pairs = pairs[: (60 if tier == "quick" else 400)]
    d = os.path.join(O.OUT, pid, "strace")
    os.makedirs(d, exist_ok=True)
    rep = {"evaluations": 0, "monitors": {"c17.syscalls": {"observed": 0, "judged": 0, "unjudged": 0, "violations": 0}}, "violations": [], "cells": {},
           "nontrivial_hashes": [], "samples": [], "nontrivial_total": 0, "extra": {"syscall_histogram": {}}}
    hist = rep["extra"]["syscall_histogram"]
    t0 = time.time()

    def one(k):
        r, dt = pairs[k]
        f = os.path.join(d, "t%d.txt" % k)
        argv = ["strace", "-f", "-qq", "-o", f, binary] + (["--"] if r.startswith("-") or dt.startswith("-") else []) + [r, dt]
        try:
            p = subprocess.run(argv, stdout=subprocess.PIPE, stderr=subprocess.PIPE, timeout=120)
        except Exception as e:
            return k, None, str(e)
        try:
            text = open(f, errors="replace").read()
        except Exception:
            text = ""
        try:
            os.unlink(f)
        except OSError:
            pass
        return k, p.returncode, text

    with ThreadPoolExecutor(max_workers=O.NCPU) as ex:
        for k, rc, text in ex.map(one, range(len(pairs))):
            r, dt = pairs[k]
            if rc is None or not text:
                continue
            rep["evaluations"] += 1
            m = rep["monitors"]["c17.syscalls"]
            m["observed"] += 1
            m["judged"] += 1
            bad = []
            n_exec = 0
            for line in text.splitlines():
                body = re.sub(r"^\d+\s+", "", line)
                mm = re.match(r"^([a-z0-9_]+)\(", body)
                if not mm:
                    continue
                name = mm.group(1)
                hist[name] = hist.get(name, 0) + 1
                if name == "execve":
                    n_exec += 1
                    if n_exec > 1:
                        bad.append(body[:200])
                elif DENY.match(body):
                    bad.append(body[:200])
                elif name == "write":
                    fd = re.match(r"write\((\d+)", body)
                    if fd and fd.group(1) not in ("1", "2"):
                        bad.append(body[:200])
                elif name in ("openat", "open"):
                    if re.search(r"O_(WRONLY|RDWR|CREAT|TRUNC|APPEND)", body):
                        bad.append(body[:200])
            rep["nontrivial_hashes"].append(hkey("strace", r, dt))
            rep["nontrivial_total"] += 1
            if bad:
                m["violations"] += 1
                rep["violations"].append({"monitor": "c17.syscalls", "sig": "effect-syscall:" + bad[0].split("(")[0], "rule": r, "data": dt,
                                          "expected": "only read(0), write(1|2), memory management and exit", "got": bad[:5],
                                          "note": "the command performed an externally visible effect other than writing to stdout / stderr", "lane": "strace", "direct": False, "count": 1})
    rep["samples"].append({"strace_runs": rep["evaluations"], "syscalls_seen": sorted(hist)[:40]})
    O.merge_report(agg, rep, "strace")
    O.lane_record(agg, "strace", "strace -f on the release jsonlogic binary, deny-list of effect-bearing syscalls", [rep], [], time.time() - t0)


# ----------------------------------------------------------------------------------------
# fresh-process isolation sample (C17 H1): one call per process vs the same calls in one process

def fresh_process_lane(pid, tier, seed, agg, meta):
    jlmon = O.build_lane("relchk")
    cases = gen_texts(jlmon, "C17", seed + 1, 60 if tier == "quick" else 600)
    pairs = [(c["rule"], c["data"]) for c in cases]
    t0 = time.time()
    together = libcall(jlmon, pairs)
    rep = {"evaluations": 0, "monitors": {"c17.fresh-process": {"observed": 0, "judged": 0, "unjudged": 0, "violations": 0}}, "violations": [], "cells": {},
           "nontrivial_hashes": [], "samples": [], "nontrivial_total": 0}

    def one(k):
        return k, libcall(jlmon, [pairs[k]])[0]

    with ThreadPoolExecutor(max_workers=O.NCPU) as ex:
        for k, alone in ex.map(one, range(len(pairs))):
            rep["evaluations"] += 2
            m = rep["monitors"]["c17.fresh-process"]
            m["observed"] += 1
            m["judged"] += 1
            rep["nontrivial_hashes"].append(hkey("fresh", *pairs[k]))
            rep["nontrivial_total"] += 1
            if alone != together[k]:
                m["violations"] += 1
                rep["violations"].append({"monitor": "c17.fresh-process", "sig": "differs-from-fresh-process", "rule": pairs[k][0], "data": pairs[k][1],
                                          "expected": alone, "got": together[k], "note": "a call made after other calls in one process differs from the same call in a fresh process",
                                          "lane": "fresh-process", "direct": False, "count": 1})
    O.merge_report(agg, rep, "fresh-process")
    O.lane_record(agg, "fresh-process", "jlmon libcall: one call per fresh process vs the same calls in one process", [rep], [], time.time() - t0)



# ----------------------------------------------------------------------------------------
# environment independence (C17): the same calls with the environment, the clock, the random
# source and the file system answering differently (LD_PRELOAD interposer harness/shim/jlshim.c)

def build_shim():
    src = os.path.join(O.HARNESS, "shim", "jlshim.c")  # the interposer does not depend on the code under test
    d = os.path.join(O.TARGET, "shim")
    os.makedirs(d, exist_ok=True)
    so = os.path.join(d, "libjlshim.so")
    if not os.path.exists(so) or os.path.getmtime(so) < os.path.getmtime(src):
        rc, out, err, dt = O.run_cmd(["cc", "-shared", "-fPIC", "-O1", "-w", "-o", so, src, "-ldl", "-lpthread"], timeout=300)
        if rc != 0:
            raise O.Inconclusive("the interposer library could not be built: %s" % err.decode("utf8", "replace")[-400:])
    return so


def env_lane(pid, tier, seed, agg, meta):
    jlmon = O.build_lane("relchk")
    so = build_shim()
    cases = gen_texts(jlmon, "C17", seed + 2, 1500 if tier == "quick" else 30000)
    pairs = [(c["rule"], c["data"]) for c in cases]
    t0 = time.time()
    plain = libcall(jlmon, pairs)
    rep = {"evaluations": 0, "monitors": {"c17.environment-independence": {"observed": 0, "judged": 0, "unjudged": 0, "violations": 0}}, "violations": [], "cells": {},
           "nontrivial_hashes": [], "samples": [], "nontrivial_total": 0, "extra": {"sources_consulted_during_calls": {}}}
    consulted = rep["extra"]["sources_consulted_during_calls"]
    m = rep["monitors"]["c17.environment-independence"]

    def one(mode):
        env = dict(O.BASE_ENV)
        env["LD_PRELOAD"] = so
        env["JL_SHIM_MODE"] = mode
        # the perturbed process starts with a different environment as well (a value read once and kept)
        if mode != "0":
            env["JSONLOGIC"] = "1"
            env["JSON_LOGIC"] = "1"
            env["JSONLOGIC_RS"] = "1"
            env["RUST_LOG"] = "trace"
            env["TZ"] = "Pacific/Kiritimati"
            env["LANG"] = "tr_TR.UTF-8"
            env["LC_ALL"] = "tr_TR.UTF-8"
        return mode, libcall(jlmon, pairs, env=env)

    with ThreadPoolExecutor(max_workers=3) as ex:
        for mode, got in ex.map(one, ["0", "A", "B"]):
            armed = sum(1 for g in got if "shim" in g)
            if armed == 0:
                raise O.Inconclusive("the interposer was not active in mode %s (LD_PRELOAD ignored?)" % mode)
            for k, g in enumerate(got):
                rep["evaluations"] += 1
                m["observed"] += 1
                sh = g.get("shim")
                if sh is None:
                    m["unjudged"] += 1
                    continue
                m["judged"] += 1
                for name in [x for x in sh.get("names", "").split(";") if x]:
                    consulted[name] = consulted.get(name, 0) + 1
                if mode == "A":
                    rep["nontrivial_hashes"].append(hkey("env", *pairs[k]))
                    rep["nontrivial_total"] += 1
                a = {"logs": g["logs"], "ret": g["ret"]}
                b = {"logs": plain[k]["logs"], "ret": plain[k]["ret"]}
                if a != b:
                    m["violations"] += 1
                    first = (sh.get("names", "").split(";") or [""])[0]
                    rep["violations"].append({"monitor": "c17.environment-independence", "sig": "result-depends-on-environment:mode-%s:%s" % (mode, first.split("(")[0] or "process-environment"),
                                              "rule": pairs[k][0], "data": pairs[k][1], "expected": b, "got": a,
                                              "note": "the same call gave a different result when the environment variables / clock / random source / files answered differently (mode %s; consulted during the call: %s)" % (mode, sh.get("names", "") or "nothing - the dependency was read outside the call"),
                                              "lane": "env", "direct": False, "count": 1})
    rep["samples"].append({"modes": ["0 (recording only)", "A", "B"], "calls_per_mode": len(pairs), "sources_consulted_during_calls": dict(consulted)})
    O.merge_report(agg, rep, "env")
    O.lane_record(agg, "env", "jlmon libcall under an LD_PRELOAD interposer that perturbs getenv / clocks / getrandom / read-only opens while a call is in flight; results compared with the unperturbed process", [rep], [], time.time() - t0)

# ----------------------------------------------------------------------------------------
# Python

def py_lane(pid, tier, seed, agg, meta, profiles=("debug", "release")):
    jlmon = O.build_lane("relchk")
    count = {"quick": 4000 if pid == "C19" else 400, "thorough": 40000}[tier]
    cases = gen_texts(jlmon, pid, seed, count)
    pairs = [(c["rule"], c["data"]) for c in cases if "\x00" not in c["rule"] + c["data"] or True]
    for t in INVALID_TEXTS:
        pairs.append((t, "null"))
        pairs.append(("{\"var\":\"a\"}", t))
    for n in (129, 1000, 50000):
        pairs.append((deep(n), "null"))
        pairs.append(("{\"var\":\"\"}", deep(n)))
    for t in MULTIBYTE_MALFORMED:
        pairs.append((t, "null"))
        pairs.append(("{\"var\":\"a\"}", t))
    pairs.extend(EVAL_ERROR_TEXTS if tier != "quick" or pid in ("C19", "C01") else EVAL_ERROR_TEXTS[::7])
    oracle = libcall(jlmon, pairs)
    d = os.path.join(O.OUT, pid, "py")
    os.makedirs(d, exist_ok=True)
    child = os.path.join(O.VERIF, "pylane", "pymod_child.py")
    variants = [(p_, "") for p_ in profiles]
    if pid == "C19":
        # the same workload again with the environment answering differently (see pymod_child.py)
        variants += [(profiles[0], "A"), (profiles[-1], "B")]
    for profile, perturb in variants:
        t0 = time.time()
        pkg_root = O.build_py(profile)
        lane_name = "py-" + profile + ("-env" + perturb if perturb else "")
        nproc = min(8, O.NCPU)
        reports, failures = [], []

        def run_child(k, skip_until=-1, attempt=0):
            cfile = os.path.join(d, "cases-%s%s-%d.json" % (profile, perturb, k))
            ofile = os.path.join(d, "out-%s%s-%d-%d.json" % (profile, perturb, k, attempt))
            if attempt == 0:
                mine = [{"i": i, "rule": pairs[i][0], "data": pairs[i][1], "oracle": oracle[i]} for i in range(len(pairs)) if i % nproc == k]
                json.dump({"property": pid, "seed": seed, "tier": tier, "cases": mine}, open(cfile, "w"))
            env = dict(O.BASE_ENV)
            env["PYTHONPATH"] = pkg_root
            env["JL_LIBCALL"] = jlmon
            if perturb:
                env["JL_PY_PERTURB"] = perturb
                env["JL_SHIM_MODE"] = perturb
                env["LD_PRELOAD"] = build_shim()
            p = subprocess.Popen([sys.executable, child, cfile, ofile, str(skip_until)], env=env, stdout=subprocess.PIPE, stderr=subprocess.PIPE, preexec_fn=O.die_with_parent)
            try:
                out, err = p.communicate(timeout=900 if tier == "quick" else 7200)
            except subprocess.TimeoutExpired:
                p.kill()
                raise O.Inconclusive("python lane watchdog fired (not a verdict)")
            if p.returncode == 0 and os.path.exists(ofile):
                return [json.load(open(ofile))]
            # the interpreter died: the progress record names the in-flight call
            prog = ofile + ".progress"
            try:
                last = json.load(open(prog))
            except Exception:
                last = {}
            etext = err.decode("utf8", "replace")
            died_by_signal = p.returncode is not None and p.returncode < 0
            if died_by_signal or "Fatal Python error" in etext:
                import signal as _sig
                cpu = died_by_signal and -p.returncode in (_sig.SIGPROF, _sig.SIGVTALRM, _sig.SIGXCPU)
                sig = ("no-result-within-cpu-budget:%s" % last.get("call")) if cpu else ("interpreter-died:%s" % p.returncode)
                rep = {"evaluations": 1, "monitors": {"c01.python": {"observed": 1, "judged": 1, "unjudged": 0, "violations": 1}},
                       "violations": [{"monitor": "c01.python", "sig": sig, "rule": last.get("rule"), "data": last.get("data"),
                                       "expected": "a value or an ordinary exception" + (" within 20 s of CPU time" if cpu else ""),
                                       "got": {"exit": p.returncode, "call": last.get("call"), "stderr": etext[-600:]},
                                       "note": "the call into the extension did not return within its CPU budget" if cpu else "the Python interpreter crashed during this call",
                                       "lane": lane_name, "direct": False, "count": 1}]}
                more = []
                if attempt < 6 and isinstance(last.get("case"), int):
                    more = run_child(k, last["case"], attempt + 1)
                return [rep] + more
            raise O.Inconclusive("python child failed (harness): rc=%s %s" % (p.returncode, etext[-800:]))

        with ThreadPoolExecutor(max_workers=nproc) as ex:
            for reps in ex.map(run_child, range(nproc)):
                reports.extend(reps)
        for r in reports:
            if pid == "C01":
                # C01 judges only "an ordinary exception instead of a crash": SystemError (a Rust panic
                # caught by the binding), MemoryError / RecursionError or a dead interpreter
                r["violations"] = [v for v in r.get("violations", []) if v["monitor"] == "c01.python"]
                n = r.get("evaluations", 0)
                r["monitors"] = {"c01.python": {"observed": n, "judged": n, "unjudged": 0, "violations": len(r["violations"])}}
            for v in r.get("violations", []):
                v["lane"] = lane_name
                if perturb:
                    v["sig"] = "env-%s:%s" % (perturb, v["sig"])
                    v["note"] = (v.get("note") or "") + " [in a process where every environment variable looked up during the import / a call exists (mode %s)]" % perturb
                v["direct"] = False
            O.merge_report(agg, r, lane_name)
        O.lane_record(agg, lane_name, "real CPython extension (%s profile) + working-tree __init__.py in a child interpreter vs library-as-a-process%s" % (profile, "; environment lookups perturbed (Python os.environ wrapper + LD_PRELOAD interposer armed around each call)" if perturb else ""), reports, failures, time.time() - t0)


# ----------------------------------------------------------------------------------------
# replay of process-lane violations

def replay(pid, rec, path):
    lane = rec.get("lane", "")
    jlmon = O.build_lane("relchk")
    rule, data = rec.get("rule"), rec.get("data")
    if lane.startswith("cli-") and (rec.get("monitor") == "c01.cli" or str(rec.get("monitor")).endswith("faithful")):
        profile = lane.split("-", 1)[1]
        binary = O.build_cli(profile)
        form = (rec.get("extra") or {}).get("form", "arg")
        orc = libcall(jlmon, [(rule, data)])[0]
        rc, out, err = run_cli(binary, rule, data, form)
        vio, _ = judge_cli(pid, rule, data, form, profile, orc, rc, out, err)
        print("REPLAY %s form=%s exit=%s stdout=%r stderr=%r" % (lane, form, rc, out[:300], err[:300]))
        if vio:
            print("VIOLATION property=%s replay=%s" % (pid, path))
            return 1
        print("REPLAY not reproduced")
        return 0
    print("REPLAY for lane %s / monitor %s: re-run `./check %s quick` with VERIF_SEED=%s (the lane is deterministic in the seed)" % (lane, rec.get("monitor"), pid, rec.get("seed")))
    import plans
    agg = O.new_agg(pid, rec.get("tier", "quick"), int(rec.get("seed", 0)))
    meta = plans.run_plan(pid, rec.get("tier", "quick"), int(rec.get("seed", 0)), agg)
    hit = [v for v in agg["violations"] if v.get("sig") == rec.get("sig")]
    if hit:
        print("VIOLATION property=%s replay=%s" % (pid, path))
        return 1
    print("REPLAY not reproduced")
    return 0


# ----------------------------------------------------------------------------------------
# cold start: many fresh processes whose very first evaluations are made by 8 threads at once
# (lazily built tables are raced here and nowhere else; see props_c17::coldstart)

def coldstart_lane(pid, tier, seed, agg, meta):
    lanes = [("relchk", 40 if tier == "quick" else 400), ("release", 24 if tier == "quick" else 200)]
    if pid == "C17":
        lanes.append(("tsan", 12 if tier == "quick" else 60))
    d = os.path.join(O.OUT, pid, "coldstart")
    os.makedirs(d, exist_ok=True)
    for lane, nproc in lanes:
        binary = O.build_lane(lane)
        t0 = time.time()
        reports, failures = [], []

        def one(i):
            out = os.path.join(d, "%s-%d.json" % (lane, i))
            try:
                os.unlink(out)
            except OSError:
                pass
            env = dict(O.BASE_ENV)
            env["TSAN_OPTIONS"] = "halt_on_error=0 exitcode=66 second_deadlock_stack=1"
            try:
                p = subprocess.run([binary, "coldstart", pid, "--seed", str(seed * 100003 + i), "--lane", lane, "--out", out], stdout=subprocess.PIPE, stderr=subprocess.PIPE, timeout=600, env=env, preexec_fn=O.die_with_parent)
            except subprocess.TimeoutExpired:
                return i, None, "", None
            rep = None
            if os.path.exists(out):
                try:
                    rep = json.load(open(out))
                except Exception:
                    rep = None
            return i, p.returncode, p.stderr.decode("utf8", "replace")[-3000:], rep

        with ThreadPoolExecutor(max_workers=O.NCPU) as ex:
            for i, rc, err, rep in ex.map(one, range(nproc)):
                if rep is not None:
                    reports.append(rep)
                if rc == 0 and rep is not None:
                    continue
                failures.append({"shard": i, "rc": rc, "stderr": err, "wall_s": 0, "lane": lane})
        lname = "coldstart-" + lane
        for r in reports:
            for v in r.get("violations", []):
                v["lane"] = lname
                v["note"] = (v.get("note") or "") + " [among the first evaluations of a fresh process, made by 8 threads at once]"
            O.merge_report(agg, r, lname)
        O.lane_record(agg, lname, "fresh processes (%s build) whose first evaluations are made by 8 threads at once, judged against the model" % lane, reports, failures, time.time() - t0)
        mon = pid.lower() + ".cold-start"
        for f in failures:
            if f["rc"] is None:
                raise O.Inconclusive("cold-start process %d (%s) ran into the wall-clock limit" % (f["shard"], lane))
            if f["rc"] == 66 or "ThreadSanitizer" in f["stderr"]:
                frame = "?"
                for line in f["stderr"].splitlines():
                    mm = re.search(r"#\d+ (\S*jsonlogic_rs\S*)", line)
                    if mm:
                        frame = mm.group(1)[:80]
                        break
                m = agg["monitors"].setdefault("c17.sanitizer", {"observed": 0, "judged": 0, "unjudged": 0, "violations": 0})
                m["violations"] += 1
                agg["violations"].append({"monitor": "c17.sanitizer", "sig": "tsan:cold-start:data-race:%s" % frame, "rule": None, "data": None, "expected": "no ThreadSanitizer report",
                                          "got": {"report": f["stderr"][:3000], "exit": f["rc"]}, "note": "ThreadSanitizer reported a data race among the first evaluations of a fresh process", "lane": lname, "count": 1, "direct": False})
                continue
            if "HARNESS-PANIC" in f["stderr"] or f["rc"] == 2:
                raise O.Inconclusive("cold-start process %d (%s): the harness itself failed: %s" % (f["shard"], lane, f["stderr"][-400:]))
            # the process died: the first evaluations of a process are calls like any other
            m = agg["monitors"].setdefault(mon, {"observed": 0, "judged": 0, "unjudged": 0, "violations": 0})
            m["observed"] += 1
            m["judged"] += 1
            m["violations"] += 1
            agg["violations"].append({"monitor": mon, "sig": "process-died-at-cold-start:%s" % f["rc"], "rule": None, "data": None, "expected": "values or errors",
                                      "got": {"exit": f["rc"], "stderr": f["stderr"][-1500:]}, "note": "a fresh process died while 8 threads were making its first evaluations", "lane": lname, "count": 1, "direct": False})
