"""Run the checks against the seeded breaking changes in /verif/seeded/<id>/ (patch.diff + meta.json).
Applies each patch to /repo (git apply), runs the quick check of the property it breaks (and any
extra checks named in meta.json), undoes the patch straight afterwards. Results -> seeded/RESULTS.json.
Usage: python3 pylane/seeded.py [id ...] [--tier quick|thorough] [--all-checks]"""
import json, os, subprocess, sys, time

VERIF = os.path.dirname(os.path.dirname(os.path.abspath(__file__)))
REPO = "/repo"


def sh(cmd, **kw):
    return subprocess.run(cmd, stdout=subprocess.PIPE, stderr=subprocess.STDOUT, text=True, **kw)


def main():
    args = [a for a in sys.argv[1:] if not a.startswith("--")]
    tier = "quick"
    if "--tier" in sys.argv:
        tier = sys.argv[sys.argv.index("--tier") + 1]
        args = [a for a in args if a != tier]
    ids = args or sorted(d for d in os.listdir(os.path.join(VERIF, "seeded")) if os.path.exists(os.path.join(VERIF, "seeded", d, "patch.diff")))
    if sh(["git", "-C", REPO, "status", "--porcelain", "--untracked-files=no"]).stdout.strip():
        print("refusing: /repo has uncommitted changes")
        return 2
    respath = os.path.join(VERIF, "seeded", "RESULTS.json")
    results = json.load(open(respath)) if os.path.exists(respath) else {}
    for sid in ids:
        d = os.path.join(VERIF, "seeded", sid)
        meta = json.load(open(os.path.join(d, "meta.json")))
        props = [meta["property"]] + meta.get("also_run", [])
        if "--all-checks" in sys.argv:
            props = ["C%02d" % i for i in range(1, 20)]
        r = sh(["git", "-C", REPO, "apply", "--whitespace=nowarn", os.path.join(d, "patch.diff")])
        if r.returncode != 0:
            # the patch was written against an earlier HEAD (before later fix: commits): allow fuzz
            sh(["git", "-C", REPO, "checkout", "--", "."])
            sh(["git", "-C", REPO, "clean", "-fdq", "--", "src", "py", "tests"])
            r = sh(["patch", "-p1", "-s", "-F3", "--no-backup-if-mismatch", "-d", REPO, "-i", os.path.join(d, "patch.diff")])
        if r.returncode != 0:
            print(sid, "patch does not apply:", r.stdout[-300:])
            results[sid] = {"error": "patch does not apply"}
            continue
        try:
            entry = {"property": meta["property"], "tier": tier, "checks": {}}
            for p in props:
                t0 = time.time()
                env = dict(os.environ)
                env["JL_EVIDENCE_DIR"] = os.path.join(VERIF, "out", "seeded-evidence")
                c = sh([os.path.join(VERIF, "check"), p, tier], cwd=VERIF, env=env)
                vio = [l for l in c.stdout.splitlines() if l.startswith("VIOLATION")]
                sigs = [l.strip() for l in c.stdout.splitlines() if l.strip().startswith("violation monitor=")]
                entry["checks"][p] = {"exit": c.returncode, "violation_lines": len(vio), "first_signatures": [s[:160] for s in sigs[:4]], "wall_s": round(time.time() - t0, 1)}
                print("%-28s %s exit=%d VIOLATION lines=%d  %s" % (sid, p, c.returncode, len(vio), (sigs[0][:110] if sigs else "")), flush=True)
                if c.returncode == 2:
                    print("   ", [l for l in c.stdout.splitlines() if "INCONCLUSIVE" in l][:2])
            entry["caught_by"] = sorted(p for p, v in entry["checks"].items() if v["exit"] == 1 and v["violation_lines"] > 0)
            results[sid] = entry
        finally:
            sh(["git", "-C", REPO, "checkout", "--", "."])
            sh(["git", "-C", REPO, "clean", "-fdq", "--", "src", "py", "tests"])
        json.dump(results, open(respath, "w"), indent=1, sort_keys=True)
    return 0


if __name__ == "__main__":
    sys.exit(main())
