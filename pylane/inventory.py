"""Markdown summary of what the last runs observed (from evidence/*.json): DESIGN.md section 11."""
import json, os, sys
V = os.path.dirname(os.path.dirname(os.path.abspath(__file__)))
d = sys.argv[1] if len(sys.argv) > 1 else os.path.join(V, "evidence")
print("| property | tier | evaluations | distinct non-trivial | monitors (judged observations) | lanes (executions) | wall s |")
print("|---|---|---|---|---|---|---|")
for i in range(1, 20):
    pid = "C%02d" % i
    p = os.path.join(d, pid + ".json")
    if not os.path.exists(p):
        continue
    e = json.load(open(p))
    c = e["coverage"]
    mons = ", ".join("%s %d" % (k.split(".", 1)[1] if "." in k else k, v["judged"]) for k, v in sorted(c["monitors"].items()))
    lanes = ", ".join("%s %d" % (l["lane"], l["executions"]) for l in c["lanes"])
    print("| %s | %s | %d | %d | %s | %s | %.0f |" % (pid, e["tier"], c["evaluations"], c["distinct_nontrivial"], mons, lanes, e["wall_s"]))
