#!/bin/bash
# apply each benign change to /repo, run the named slow checks, revert
run() { id=$1; shift
  cd /repo && git apply --whitespace=nowarn /verif/benign/$id/patch.diff || { echo "$id apply-failed"; return; }
  cd /verif
  for p in "$@"; do
    JL_EVIDENCE_DIR=/verif/out/benign-evidence ./check $p quick > /verif/out/benign-$id-$p.log 2>&1
    echo "$id $p exit=$? viol=$(grep -c '^VIOLATION' /verif/out/benign-$id-$p.log)"
  done
  cd /repo && git checkout -q -- . && git clean -fdq -- src py tests
}
run b4-2 C18 C01
run b4-1 C18
run b4-3 C19
run b4-4 C19 C17
run b3-3 C19 C17
run b1-2 C17
run b2-1 C17
run b3-1 C17
run b1-4 C17
run b2-2 C17
run b3-2 C17
run b2-3 C17
run b2-4 C17
run b1-1 C17
run b3-4 C17
run b1-3 C17
run b3-3 C01
echo ALL-DONE
