"""Refresh the generated parts of DESIGN.md: the catch matrix (section 10) and the inventory of what
the last quick runs observed (section 11). Usage: python3 pylane/finalize_design.py"""
import os, re, subprocess, sys
V = os.path.dirname(os.path.dirname(os.path.abspath(__file__)))

def run(script):
    return subprocess.run([sys.executable, os.path.join(V, "pylane", script)], capture_output=True, text=True, check=True).stdout.strip()

def put(text, name, body):
    b, e = "<!-- %s:BEGIN -->" % name, "<!-- %s:END -->" % name
    if b not in text:
        raise SystemExit("marker %s missing" % b)
    i, j = text.index(b) + len(b), text.index(e)
    return text[:i] + "\n" + body + "\n" + text[j:]

def main():
    p = os.path.join(V, "DESIGN.md")
    t = open(p).read()
    t = put(t, "MATRIX", run("matrix_table.py"))
    t = put(t, "INVENTORY", run("inventory.py"))
    open(p, "w").write(t)

if __name__ == "__main__":
    main()
