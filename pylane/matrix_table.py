"""Render seeded/MATRIX.json (+ meta.json of every seeded change) as the markdown table of DESIGN.md section 10."""
import json, os, sys
V = os.path.dirname(os.path.dirname(os.path.abspath(__file__)))

def main():
    m = json.load(open(os.path.join(V, "seeded", "MATRIX.json")))
    out = []
    out.append("| change | breaks | what it does (short) | caught by (quick checks, exit 1) | inconclusive | silent |")
    out.append("|--------|--------|----------------------|----------------------------------|--------------|--------|")
    for sid in sorted(k for k in m if k != "unchanged"):
        row = m[sid]
        meta = json.load(open(os.path.join(V, "seeded", sid, "meta.json")))
        caught = [p for p, v in sorted(row.items()) if v["exit"] == 1]
        inc = [p for p, v in sorted(row.items()) if v["exit"] == 2]
        silent = len([p for p, v in row.items() if v["exit"] == 0])
        own = meta["property"]
        mark = lambda p: ("**%s**" % p) if p == own else p
        out.append("| `%s` | %s | %s | %s | %s | %d |" % (sid, own, meta.get("what", "")[:110].replace("|", "/"), ", ".join(mark(p) for p in caught) or "-", ", ".join(inc) or "-", silent))
    if "unchanged" in m:
        u = m["unchanged"]
        out.append("")
        out.append("Unchanged tree in the same sweep: " + ("every check exit 0." if all(v["exit"] == 0 for v in u.values()) else "NOT all zero: %s" % {p: v["exit"] for p, v in u.items() if v["exit"] != 0}))
    print("\n".join(out))

if __name__ == "__main__":
    main()
