#!/bin/sh
# background thorough sweep on a snapshot of /repo HEAD (JL_REPO), results in ./thorough_results.txt
export JL_REPO="$VP_RUN_REPO"
export CARGO_NET_OFFLINE=true
cp /repo/Cargo.lock "$VP_RUN_REPO/Cargo.lock" 2>/dev/null
./setup.sh > setup.log 2>&1 || { echo "setup failed"; tail -20 setup.log; exit 2; }
for p in C02 C03 C04 C05 C06 C07 C08 C09 C10 C11 C12 C13 C14 C15 C16 C18 C19 C17 C01; do
  s=$(date +%s)
  ./check $p thorough > thorough_$p.log 2>&1
  rc=$?
  echo "$p exit=$rc $(( $(date +%s)-s ))s viol=$(grep -c '^VIOLATION' thorough_$p.log) known=$(grep -c '^KNOWN-FINDING' thorough_$p.log)" | tee -a thorough_results.txt
  grep -E "INCONCLUSIVE|^VIOLATION" thorough_$p.log | head -5
done
