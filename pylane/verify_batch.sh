#!/bin/sh
# usage: verify_batch.sh SLOT "K PID N" ...
slot=$1; shift
for item in "$@"; do
  set -- $item
  echo "=== $2-m$3 (agent $1)"
  VFY_SLOT=$slot python3 /verif/pylane/verify_mutant.py $2 $3 --roundN ${ROUND:-6} $1 2>&1 | tail -6
done
