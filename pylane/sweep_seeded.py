"""Background sweep (not a registered check): the full catch matrix of the seeded changes.
For every seeded/<id>/patch.diff: copy the repository snapshot, apply the patch to the COPY,
run every property's quick check against the copy (JL_REPO), record exit codes.
Usage (from a `vp run --with-repo` snapshot):  python3 pylane/sweep_seeded.py [ids...]
Writes seeded/MATRIX.json in the working directory."""
import json, os, shutil, subprocess, sys, time

HERE = os.path.dirname(os.path.dirname(os.path.abspath(__file__)))
SRC_REPO = os.environ.get("VP_RUN_REPO") or "/repo"
SEEDED = os.environ.get("SEEDED_DIR") or os.path.join(HERE, "seeded")


def main():
    out_override = None
    if "--out" in sys.argv:
        i = sys.argv.index("--out")
        out_override = sys.argv[i + 1]
        del sys.argv[i:i + 2]
    ids = [a for a in sys.argv[1:] if not a.startswith("--")] or sorted(d for d in os.listdir(SEEDED) if os.path.exists(os.path.join(SEEDED, d, "patch.diff")))
    props = ["C%02d" % i for i in range(1, 20)]
    outp = os.path.join(HERE, "seeded", "MATRIX.json")
    if out_override:
        outp = os.path.join(HERE, out_override)
    matrix = json.load(open(outp)) if os.path.exists(outp) else {}
    work = "/tmp/sweep-repo-%d" % os.getpid()
    for sid in (["unchanged"] if "--fast" not in sys.argv and "--own" not in sys.argv and "--own-all" not in sys.argv else []) + ids:
        shutil.rmtree(work, ignore_errors=True)
        shutil.copytree(SRC_REPO, work, ignore=shutil.ignore_patterns("target", ".git"))
        if sid != "unchanged":
            r = subprocess.run(["patch", "-p1", "-s", "-F3", "--no-backup-if-mismatch", "-i", os.path.join(SEEDED, sid, "patch.diff")], cwd=work, capture_output=True, text=True)
            if r.returncode != 0:
                print(sid, "patch failed", r.stdout[-300:], r.stderr[-300:], flush=True)
                continue
        row = matrix.get(sid, {}) if ("--own" in sys.argv or "--own-all" in sys.argv) else {}
        selected = list(props)
        if sid != "unchanged" and "--full" not in sys.argv:
            # the four slow checks (C01, C17, C18, C19) only where they are aimed at or related
            meta = json.load(open(os.path.join(SEEDED, sid, "meta.json")))
            want = set([meta["property"]] + meta.get("also_run", []))
            patch = open(os.path.join(SEEDED, sid, "patch.diff")).read()
            if "src/bin.rs" in patch:
                want.add("C18")
            if "py/jsonlogic_rs" in patch or "python_iface" in patch:
                want.add("C19")
            selected = [p for p in props if p not in ("C01", "C17", "C18", "C19") or p in want]
            if "--own-all" in sys.argv:
                # first look at a new round: the check of the property the change breaks (slow ones included) and the related ones
                selected = [p for p in props if p == meta["property"] or p in meta.get("also_run", [])]
            elif "--own" in sys.argv:
                # regression after a harness change: only the check of the property the change breaks
                selected = [p for p in props if p == meta["property"] and p not in ("C01", "C17", "C18", "C19")]
            elif "--fast" in sys.argv:
                # in-process checks only; the four slow checks are taken from seeded/RESULTS.json
                selected = [p for p in props if p not in ("C01", "C17", "C18", "C19")]
        for p in selected:
            env = dict(os.environ)
            env["JL_REPO"] = work
            t0 = time.time()
            c = subprocess.run([os.path.join(HERE, "check"), p, "quick"], cwd=HERE, env=env, capture_output=True, text=True)
            nvio = sum(1 for l in c.stdout.splitlines() if l.startswith("VIOLATION"))
            row[p] = {"exit": c.returncode, "violations": nvio, "wall_s": round(time.time() - t0, 1)}
            if nvio:
                row[p]["first"] = [l.strip()[:300] for l in c.stdout.splitlines() if l.strip().startswith("violation monitor=")][:3]
            if c.returncode == 2:
                row[p]["inconclusive"] = [l for l in c.stdout.splitlines() if "INCONCLUSIVE" in l][:1]
        matrix[sid] = row
        print(sid, " ".join("%s:%d" % (p, v["exit"]) for p, v in row.items()), flush=True)
        json.dump(matrix, open(outp, "w"), indent=1, sort_keys=True)
    shutil.rmtree(work, ignore_errors=True)


if __name__ == "__main__":
    main()
