"""valgrind memcheck lanes (thorough tier): the real `jsonlogic` binary and the real CPython
extension run under memcheck on a sample of the text workloads.

What memcheck adds to the other lanes: reads of *uninitialised* memory (AddressSanitizer does not
see them, and Miri cannot cross into CPython or run the clap front end in reasonable time), invalid
reads / writes / frees in the two pieces of code that the in-process sanitizer lanes never execute
(`src/bin.rs`, `python_iface` + rust-cpython's glue), and definite leaks at exit.

Verdict: a memcheck report whose stack contains a frame of the code under test (`jsonlogic`
binary: any report, because every frame belongs to the process under test; extension: a frame in
`jsonlogic.so` / `jsonlogic_rs::` / `python_iface`) is a violation of the "never crashes" clause
being checked - undefined behaviour is the thing that clause exists to exclude, seen before it
turns into a signal. CPython's own reports (its small-int cache and hash randomisation read
uninitialised bytes by design) are counted and reported as evidence, never judged. valgrind
failing to start, or a run ending in the wall-clock limit, is inconclusive."""
import json, os, re, subprocess, sys, time
from concurrent.futures import ThreadPoolExecutor
import orchestrate as O
import proclanes as PL

VG = ["valgrind", "-q", "--error-exitcode=97", "--num-callers=40"]
LEAKS = ["--leak-check=full", "--show-leak-kinds=definite,indirect", "--errors-for-leak-kinds=definite,indirect"]
KIND = re.compile(r"^==\d+== (Invalid (?:read|write|free)[^\n]*|Conditional jump or move depends on uninitialised value\(s\)|Use of uninitialised value[^\n]*|"
                  r"Syscall param [^\n]*|Mismatched free[^\n]*|Source and destination overlap[^\n]*|Argument '[^\n]*|[\d,]+ (?:\([\d,]+ direct, [\d,]+ indirect\) )?bytes in [\d,]+ blocks are (?:definitely|indirectly) lost[^\n]*|"
                  r"Jump to the invalid address[^\n]*|Process terminating with[^\n]*|Stack overflow[^\n]*)", re.M)


def blocks(text):
    """memcheck prints one block per report, blocks separated by an empty '==pid== ' line"""
    out, cur = [], []
    for line in text.splitlines():
        body = re.sub(r"^==\d+==\s?", "", line)
        if body.strip() == "":
            if cur:
                out.append(cur)
            cur = []
        else:
            cur.append(body)
    if cur:
        out.append(cur)
    return [b for b in out if KIND.match("==0== " + b[0])]


def kind_of(block):
    k = block[0]
    k = re.sub(r"[\d,]+", "N", k)
    return k[:60]


def first_frame(block, needles):
    for l in block[1:]:
        if any(n in l for n in needles):
            m = re.search(r"(?:at|by) 0x[0-9A-Fa-f]+: (.+?)(?: \(|$)", l)
            return (m.group(1) if m else l.strip())[:80]
    return None


def new_rep(mon):
    return {"evaluations": 0, "monitors": {mon: {"observed": 0, "judged": 0, "unjudged": 0, "violations": 0}}, "violations": [], "cells": {},
            "nontrivial_hashes": [], "samples": [], "nontrivial_total": 0, "extra": {}}


def have_valgrind():
    try:
        p = subprocess.run(["valgrind", "--version"], stdout=subprocess.PIPE, stderr=subprocess.PIPE, timeout=30)
        return p.returncode == 0
    except Exception:
        return False


def memcheck_cli_lane(pid, tier, seed, agg, meta):
    mon = pid.lower() + ".memcheck-cli"
    if not have_valgrind():
        raise O.Inconclusive("valgrind is not available")
    jlmon = O.build_lane("relchk")
    binary = O.build_cli("release")
    n = 64 if tier == "quick" else 320
    cases = PL.gen_texts(jlmon, "C18" if pid != "C17" else "C17", seed, 3 * n)
    pairs = [(c["rule"], c["data"]) for c in cases if len(c["rule"]) + len(c["data"]) < 60000 and "\x00" not in c["rule"] + c["data"]]
    # always: every operator once through the front end, the invalid texts, the deepest documents
    fixed = [("{\"cat\":[\"\u00e9\",{\"var\":\"a\"},1.5]}", "{\"a\":[1,2]}"), ("{\"log\":{\"var\":\"a\"}}", "{\"a\":\"x\"}"), ("{\"/\":[1]}", "null"), ("{", "null"), ("{\"var\":\"a\"}", "[1,"),
             (PL.deep(127), "null"), (PL.deep(129), "null"), ("{\"var\":\"\"}", PL.deep(200)), ("{\"substr\":[\"\U0001F600a\u00e9\",-2,1]}", "null"),
             ("{\"reduce\":[{\"var\":\"\"},{\"+\":[{\"var\":\"current\"},{\"var\":\"accumulator\"}]},0]}", "[1,2,3,4.5,\"6\"]"), ("\"\\ud800\"", "null"), ("{\"==\":[\" 0x10 \",16]}", "null")]
    step = max(1, len(pairs) // n)
    pairs = fixed + pairs[::step][:n]
    forms = [("argv", "stdin", "dash")[k % 3] for k in range(len(pairs))]
    # what a pipeline can deliver on stdin besides a document: nothing, a lone newline, blanks, a document without / with newlines
    for dt in ("", "\n", " ", "\r\n", "null", "null\n", "null\n\n", "\nnull", "\u00e9", "\"\u00e9\"\n"):
        for form in ("stdin", "dash"):
            pairs.append(("{\"var\":\"\"}", dt))
            forms.append(form)
    d = os.path.join(O.OUT, pid, "memcheck")
    os.makedirs(d, exist_ok=True)
    rep = new_rep(mon)
    t0 = time.time()
    kinds = {}

    def one(k):
        r, dt = pairs[k]
        form = forms[k]
        f = os.path.join(d, "cli-%d.log" % k)
        argv = VG + LEAKS + ["--log-file=" + f, binary]
        dash = ["--"] if r.startswith("-") or (form == "argv" and dt.startswith("-")) else []
        if form == "argv":
            argv += dash + [r, dt]
            inp = None
        elif form == "stdin":
            argv += dash + [r]
            inp = dt.encode("utf8", "surrogatepass")
        else:
            argv += dash + [r, "-"]
            inp = dt.encode("utf8", "surrogatepass")
        try:
            p = subprocess.run(argv, input=inp, stdout=subprocess.PIPE, stderr=subprocess.PIPE, timeout=600, env=O.BASE_ENV)
            rc = p.returncode
        except subprocess.TimeoutExpired:
            return k, form, None, "timeout"
        except Exception as e:
            return k, form, None, "harness: %s" % e
        try:
            text = open(f, errors="replace").read()
            os.unlink(f)
        except OSError:
            text = ""
        return k, form, rc, text

    inconclusive = 0
    with ThreadPoolExecutor(max_workers=O.NCPU) as ex:
        for k, form, rc, text in ex.map(one, range(len(pairs))):
            r, dt = pairs[k]
            if rc is None or rc in (126, 127) or "valgrind: " in text[:400]:
                inconclusive += 1
                continue
            rep["evaluations"] += 1
            m = rep["monitors"][mon]
            m["observed"] += 1
            m["judged"] += 1
            rep["nontrivial_hashes"].append(PL.hkey("memcheck-cli", r, dt, form))
            rep["nontrivial_total"] += 1
            bl = blocks(text)
            if bl or rc == 97:
                kind = kind_of(bl[0]) if bl else "error-exit"
                frame = first_frame(bl[0], ["jsonlogic", "serde", "clap", "anyhow"]) if bl else None
                kinds[kind] = kinds.get(kind, 0) + 1
                m["violations"] += 1
                rep["violations"].append({"monitor": mon, "sig": "memcheck:%s:%s" % (kind, frame or "?"), "rule": r, "data": dt,
                                          "expected": "no memcheck report (invalid read / write / free, use of uninitialised memory, definite leak)",
                                          "got": {"form": form, "exit": rc, "report": ["\n".join(b[:12]) for b in bl[:2]]},
                                          "note": "valgrind memcheck reported an error while the jsonlogic command handled this input", "lane": "memcheck-cli", "direct": False, "count": 1})
    if inconclusive > len(pairs) // 4:
        raise O.Inconclusive("memcheck: %d of %d runs did not produce a report (valgrind failed to start or ran into the wall-clock limit)" % (inconclusive, len(pairs)))
    rep["extra"]["memcheck_cli"] = {"runs": rep["evaluations"], "not_completed": inconclusive, "report_kinds": kinds}
    rep["samples"].append({"memcheck_cli_runs": rep["evaluations"], "forms": ["argv", "stdin", "dash"], "reports": kinds})
    O.merge_report(agg, rep, "memcheck-cli")
    O.lane_record(agg, "memcheck-cli", "valgrind memcheck (leak-check=full) around the release jsonlogic binary, one process per input", [rep], [], time.time() - t0)


PY_NEEDLES = ["jsonlogic.so", "jsonlogic_rs", "python_iface", "libjsonlogic"]

VG_CHILD = r'''
import json, sys
import jsonlogic_rs
cases = json.load(open(sys.argv[1]))
done = 0
for c in cases:
    r, d = c["rule"], c["data"]
    for fn in (lambda: jsonlogic_rs.apply_serialized(r, d), lambda: jsonlogic_rs.apply_serialized(r), lambda: jsonlogic_rs.apply(json.loads(r), json.loads(d)),
               lambda: jsonlogic_rs.apply(json.loads(r)), lambda: jsonlogic_rs.apply_serialized(r, d, lambda s: s)):
        try:
            fn()
        except ValueError:
            pass
        except RecursionError:
            pass
        done += 1
print("DONE", done)
'''


def memcheck_py_lane(pid, tier, seed, agg, meta):
    mon = pid.lower() + ".memcheck-py"
    if not have_valgrind():
        raise O.Inconclusive("valgrind is not available")
    jlmon = O.build_lane("relchk")
    pkg_root = O.build_py("release")
    n = 60 if tier == "quick" else 400
    cases = PL.gen_texts(jlmon, "C19", seed, 4 * n)
    pairs = [(c["rule"], c["data"]) for c in cases if len(c["rule"]) + len(c["data"]) < 20000]
    step = max(1, len(pairs) // n)
    pairs = pairs[::step][:n]
    for t in PL.INVALID_TEXTS + PL.MULTIBYTE_MALFORMED[::7]:
        pairs.append((t, "null"))
        pairs.append(("{\"var\":\"a\"}", t))
    pairs += [(PL.deep(127), "null"), (PL.deep(129), "null"), ("{\"cat\":[\"\u00e9\U0001F600\",{\"var\":\"\"}]}", "\"\u65e5\""), ("{\"log\":{\"var\":\"\"}}", "[1,2]")]
    d = os.path.join(O.OUT, pid, "memcheck")
    os.makedirs(d, exist_ok=True)
    child = os.path.join(d, "vg_child.py")
    open(child, "w").write(VG_CHILD)
    real_python = os.path.realpath(sys.executable)
    nproc = min(8, O.NCPU)
    rep = new_rep(mon)
    t0 = time.time()
    kinds, foreign = {}, 0

    def one(k):
        mine = [{"rule": r, "data": dt} for i, (r, dt) in enumerate(pairs) if i % nproc == k]
        cfile = os.path.join(d, "py-cases-%d.json" % k)
        json.dump(mine, open(cfile, "w"))
        f = os.path.join(d, "py-%d.log" % k)
        env = dict(O.BASE_ENV)
        env["PYTHONPATH"] = pkg_root
        env["PYTHONMALLOC"] = "malloc"
        env["PYTHONHASHSEED"] = "0"
        argv = VG + ["--leak-check=no", "--error-limit=no", "--log-file=" + f, real_python, child, cfile]
        try:
            p = subprocess.run(argv, stdout=subprocess.PIPE, stderr=subprocess.PIPE, timeout=3000, env=env)
        except subprocess.TimeoutExpired:
            return k, len(mine), None, "", "timeout"
        try:
            text = open(f, errors="replace").read()
            os.unlink(f)
        except OSError:
            text = ""
        return k, len(mine), p.returncode, text, p.stdout.decode("utf8", "replace")[-200:] + p.stderr.decode("utf8", "replace")[-600:]

    with ThreadPoolExecutor(max_workers=nproc) as ex:
        for k, ncases, rc, text, tail in ex.map(one, range(nproc)):
            if rc is None or "DONE" not in tail:
                if rc is not None and rc < 0:
                    # the interpreter died under memcheck: that is what the py lane judges; here the sample is simply lost
                    pass
                raise O.Inconclusive("memcheck python child %d did not finish (rc=%s): %s" % (k, rc, tail[-300:]))
            calls = 5 * ncases
            rep["evaluations"] += calls
            m = rep["monitors"][mon]
            m["observed"] += calls
            m["judged"] += calls
            rep["nontrivial_total"] += ncases
            rep["nontrivial_hashes"].extend(PL.hkey("memcheck-py", r, dt) for i, (r, dt) in enumerate(pairs) if i % nproc == k)
            seen = set()
            for b in blocks(text):
                fr = first_frame(b, PY_NEEDLES)
                if fr is None:
                    foreign += 1
                    continue
                kind = kind_of(b)
                sig = "memcheck:%s:%s" % (kind, fr)
                kinds[kind] = kinds.get(kind, 0) + 1
                if sig in seen:
                    continue
                seen.add(sig)
                m["violations"] += 1
                rep["violations"].append({"monitor": mon, "sig": sig, "rule": "(one of the %d inputs of child %d)" % (ncases, k), "data": None,
                                          "expected": "no memcheck report with a frame of the extension module",
                                          "got": {"report": "\n".join(b[:16])}, "note": "valgrind memcheck reported an error inside the native extension (or in code it called) while CPython was calling it",
                                          "lane": "memcheck-py", "direct": False, "count": 1})
    rep["extra"]["memcheck_py"] = {"calls": rep["evaluations"], "reports_in_extension": kinds, "reports_elsewhere_in_cpython_not_judged": foreign}
    rep["samples"].append({"memcheck_py_calls": rep["evaluations"], "cpython_own_reports_ignored": foreign})
    O.merge_report(agg, rep, "memcheck-py")
    O.lane_record(agg, "memcheck-py", "valgrind memcheck around CPython (PYTHONMALLOC=malloc) calling the release extension; only reports with a frame of the extension are judged", [rep], [], time.time() - t0)
