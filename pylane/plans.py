"""Per-property plans: which lanes run in which tier, what counts as non-trivial (evidence
'rule' text), what is assumed, and the coverage floors below which a run is inconclusive."""
import json, os, time
import orchestrate as O
import proclanes as PL
import memcheck as MC

COMMON_ASSUME = [
    "rustc/cargo, std and the crates in Cargo.lock (serde_json, phf, ...) are the trusted base; the harness links the code under test from /repo's working tree by path dependency and rebuilds it on every run",
    "the reference semantics (harness/src/refsem.rs) were written from the property statements; they are cross-checked on every run against ground truth recorded from a JavaScript engine (truth/js_truth.json) and against /repo/tests/data/tests.json",
    "inputs on which the statements do not determine the outcome are executed but only checked for totality (counted as unjudged)",
    "a verdict covers the executions observed, not all inputs",
]

GENERIC_FLOORS = {"evaluations": 1000}


def P(rule, monitors, inproc=None, cells=None, extra_assume=None, evaluations=1000, proc=None):
    ladder = ["size-ladder"] if "size ladder" in rule else []
    return {"rule": rule, "assumptions": COMMON_ASSUME + (extra_assume or []),
            "floors": {"evaluations": evaluations, "monitors": monitors, "cells": (cells or []) + ladder},
            "inproc": inproc or {"quick": [("relchk", 16, 8.0), ("release", 16, 2.0)], "thorough": [("relchk", 16, 3.0), ("release", 16, 1.0)]},
            "proc": proc or {"quick": [PL.coldstart_lane], "thorough": [PL.coldstart_lane]}}


PLANS = {
    "C06": P("every value of the hostile corpus V (+ truthiness corner values) and seeded random values (depth <= 3) is placed in 16 deciding positions (!!, !, if, ?:, second if-condition, and, or, all/some/none over literal and computed collections, filter, map, reduce) through up to 5 routes (literal, var, if-result, merge/cat result, var default); each observation is judged against the table, against the reference model, and all positions must agree. Non-trivial = the value is a corner value (null, booleans, zero-like numbers, empty / blank / '0' strings, arrays of length <= 1, objects); distinct by value text. Every run ends with a size ladder: the same monitors at sizes 6..5000 around powers of two (operand counts, collection / string / key-list lengths, deciding positions first / middle / last, nesting depths, digit counts), and where the property has them far ladders (operand / element counts around 2^15 .. 2^17, nesting depths 128 .. 5000 on a thread with a 1 GiB stack, literals of 8 192 .. 70 000 digits, results beyond 16 MiB).",
             ["c06.table", "c06.consistency", "c06.model"], cells=["pos:filter", "pos:none-lit", "type:array:false", "type:object:true"]),
    "C07": P("ordered pairs (a, b): the full square of the corpus V, the numeric-string grammar corpus S against every number / null / booleans / small arrays, and seeded random pairs (related by string form, numeric string with white space, wrapping); each pair is evaluated with operands obtained through var, as literals and through the js_op helpers; judged against ECMAScript abstract equality (reference model), symmetry, negation, helper = operator. Non-trivial = the two operands differ in text and are not (null, non-null); distinct by pair text. Every run ends with a size ladder: the same monitors at sizes 6..5000 around powers of two (operand counts, collection / string / key-list lengths, deciding positions first / middle / last, nesting depths, digit counts), and where the property has them far ladders (operand / element counts around 2^15 .. 2^17, nesting depths 128 .. 5000 on a thread with a 1 GiB stack, literals of 8 192 .. 70 000 digits, results beyond 16 MiB).",
             ["c07.model", "c07.symmetry", "c07.negation", "c07.helper"],
             cells=["string==number:true", "array==string:true", "bool==string:true", "object==string:true", "null==null:true", "number==array:true"]),
    "C08": P("ordered pairs as in C07 plus the square of 20 number spellings (1 / 1.0 / 1e0 / 10e-1, +-0, integers around 2^53 and 2^63 in i64 / u64 / double spelling); operands obtained through var (including the same data slot on both sides), as literals and through the helpers; judged against strict equality with distinct instances, negation, symmetry, '=== implies =='. Non-trivial = both operands of the same JSON type or both numbers; distinct by pair text. Every run ends with a size ladder: the same monitors at sizes 6..5000 around powers of two (operand counts, collection / string / key-list lengths, deciding positions first / middle / last, nesting depths, digit counts), and where the property has them far ladders (operand / element counts around 2^15 .. 2^17, nesting depths 128 .. 5000 on a thread with a 1 GiB stack, literals of 8 192 .. 70 000 digits, results beyond 16 MiB).",
             ["c08.model", "c08.symmetry", "c08.negation", "c08.helper", "c08.implies-eq"],
             cells=["number===number:true", "array===array:false", "object===object:false", "string===string:true"]),
    "C09": P("ordered pairs as in C07 for <, <=, >, >= (both operand orders are in the square), triples from a 40-value sub-corpus for the between form, seeded random pairs / triples; judged against ECMAScript relational comparison (reference model), the mirror laws a>b = b<a and a>=b = b<=a, between = conjunction, helper = operator. Non-trivial = the pair is neither < nor == by the implementation's own helpers, or is of mixed type; distinct by pair / triple text. Every run ends with a size ladder: the same monitors at sizes 6..5000 around powers of two (operand counts, collection / string / key-list lengths, deciding positions first / middle / last, nesting depths, digit counts), and where the property has them far ladders (operand / element counts around 2^15 .. 2^17, nesting depths 128 .. 5000 on a thread with a 1 GiB stack, literals of 8 192 .. 70 000 digits, results beyond 16 MiB).",
             ["c09.model", "c09.mirror", "c09.between", "c09.helper"],
             cells=["lte-true-but-neither-lt-nor-eq", "between<:true", "between>=:true", "string<string:true", "array<=array:true"]),
    "C10": P("operand tuples of length 0..5 for + - * / % min max: all ordered pairs of an operand pool (number corpus incl. 2^53, 2^63, 2^64 neighbourhoods, 5e-324 .. 1.8e308; numeric-string spellings; null / booleans / arrays / objects), the numeric-string grammar corpus S as single operands and inside arrays, and seeded random tuples aimed at results landing on / around 2^53, 2^63, 2^64, overflow and underflow; the result must be bit-identical (as a double, and exactly as an integer) to the reference computation, spelled as a JSON integer when integral below 2^63, and an error exactly when an operand is non-numeric or the result is not finite. Non-trivial = an operand needs conversion, or the result is beyond 2^53, subnormal, or an error; distinct by (rule, operands) text. Every run ends with a size ladder: the same monitors at sizes 6..5000 around powers of two (operand counts, collection / string / key-list lengths, deciding positions first / middle / last, nesting depths, digit counts), and where the property has them far ladders (operand / element counts around 2^15 .. 2^17, nesting depths 128 .. 5000 on a thread with a 1 GiB stack, literals of 8 192 .. 70 000 digits, results beyond 16 MiB).",
             ["c10.model", "c10.result-shape"],
             cells=["+:integral>=2^63", "*:integral>=2^63", "-:error", "/:error", "%:error", "min:integral-small", "max:fractional", "+:subnormal"]),
    "C15": P("merge: operand lists of length 0..6 over scalars, arrays, nested arrays, objects (exhaustive pairs over a shape corpus, then random); in: the square of 20 number spellings wrapped at depth 0..2 in arrays / objects, objects with permuted key order, V against 12 haystacks, all substrings over a 5-character multi-byte alphabet, random (needle re-spelled from a member of the haystack). Judged against the reference model and the length / order law of merge. Non-trivial = merge with a nested array operand; in with a container needle or a number needle in an array haystack; distinct by (rule, data) text. Every run ends with a size ladder: the same monitors at sizes 6..5000 around powers of two (operand counts, collection / string / key-list lengths, deciding positions first / middle / last, nesting depths, digit counts), and where the property has them far ladders (operand / element counts around 2^15 .. 2^17, nesting depths 128 .. 5000 on a thread with a 1 GiB stack, literals of 8 192 .. 70 000 digits, results beyond 16 MiB).",
             ["c15.merge.model", "c15.merge.length", "c15.in.model"],
             cells=["merge:nested-array-operand", "in:true-through-different-spelling", "in:string-in-string:true", "in:err:*"]),
    "C16": P("substr: all strings of length 0..3 (quick) / 0..4 (thorough) over the alphabet [a, e-acute (2 bytes), CJK (3 bytes), emoji (4 bytes), combining mark] x start in -10..10 and the 64-bit extremes x length absent / -10..10 / extremes, plus random strings of length 5..8; judged against the character-based reference model, the split/recombine law, the negative-start = suffix law and contiguity. cat: operand lists of length 0..5 from V incl. nested arrays with nulls; judged against the reference string forms and 'pieces = at once'. Non-trivial = substr on a string with a multi-byte character with start != 0 or a length; cat with a non-string operand; distinct by rule text. Every run ends with a size ladder: the same monitors at sizes 6..5000 around powers of two (operand counts, collection / string / key-list lengths, deciding positions first / middle / last, nesting depths, digit counts), and where the property has them far ladders (operand / element counts around 2^15 .. 2^17, nesting depths 128 .. 5000 on a thread with a 1 GiB stack, literals of 8 192 .. 70 000 digits, results beyond 16 MiB).",
             ["c16.substr.model", "c16.substr.split-recombine", "c16.substr.suffix", "c16.substr.contiguous", "c16.cat.model", "c16.cat.pieces"],
             cells=["substr:start=neg:len=neg:multibyte", "substr:start=pos:len=absent:multibyte", "cat:operand:array", "cat:operand:null"]),
    "C02": P("literals: every non-rule value of V, the empty object, single-key objects whose key is a near miss of each of the 35 operator names (14 derivations: surrounding space / tab / NBSP / BOM / NUL, case variants, prefix, suffix, truncation, doubled last character, Unicode look-alikes), two-key objects for every ordered pair of operator keys, arrays / objects holding operation-shaped members (log probes, poisoned operations) - each against 8 data values in which the embedded keys resolve; the result must be the value itself (text-identical) with no log line. Dispatch: one distinguishing operand tuple per operator (the model's result under that operator differs from its result under every other operator). Plus random literal-heavy rule trees. Non-trivial = the literal has an operation-shaped member, a near-miss key or several keys, or the case is a dispatch tuple; distinct by value text. Every run ends with a size ladder: the same monitors at sizes 6..5000 around powers of two (operand counts, collection / string / key-list lengths, deciding positions first / middle / last, nesting depths, digit counts), and where the property has them far ladders (operand / element counts around 2^15 .. 2^17, nesting depths 128 .. 5000 on a thread with a 1 GiB stack, literals of 8 192 .. 70 000 digits, results beyond 16 MiB).",
             ["c02.identity", "c02.model", "c02.dispatch"], cells=["literal:near-miss-key", "literal:two-operator-keys", "literal:array-with-operation-member", "dispatch:distinguishing-tuple", "quantifier-literal-array-elements"]),
    "C03": P("exhaustive over 35 operators x operand counts 0..6 x {a type-valid tuple, 8 (quick) / 200 (thorough) random tuples from V} x 4 data values: a count outside the documented set must be an error for every tuple, a documented count with type-valid operands must be accepted, and every outcome must equal the reference model's (surplus operands ignored or defaults invented would show as value differences); bracket-less form: {op: x} against {op: [x]} for every operator and every non-array value of V and for operation-shaped x (outcome and log trace must be equal). Non-trivial = every (operator, count, form) cell; distinct cells counted. Every run ends with a size ladder: the same monitors at sizes 6..5000 around powers of two (operand counts, collection / string / key-list lengths, deciding positions first / middle / last, nesting depths, digit counts), and where the property has them far ladders (operand / element counts around 2^15 .. 2^17, nesting depths 128 .. 5000 on a thread with a 1 GiB stack, literals of 8 192 .. 70 000 digits, results beyond 16 MiB).",
             ["c03.arity", "c03.unary-form", "c03.model"], cells=["arity:<:4:err", "arity:var:3:err", "arity:!!:2:err", "arity:reduce:3:ok", "arity:if:0:ok", "unary-form:var:ok", "unary-form:==:err"]),
    "C04": P("10 operation-shaped marker values ({log: LEAK-n}, {var: secret}, poisoned operations ...) planted in data and routed through 40 channels by which a data / default / computed value reaches an operator (var incl. defaults, if / and / or results, map / filter / reduce elements, accumulator and initial value, all / some / none over computed vs literal collections, merge, cat, comparisons, key lists read from data), each also nested in an eager and a lazy context; random rule trees over random data trees with markers at 45% of the leaves. Monitors: reference-model value + log-trace judge (each probe exactly as often as predicted), a model-free leak monitor (a rule without any log printed a line), and the substitution law for the 22 eager operators (operands replaced by references to their precomputed values). Non-trivial = every case (all carry markers or substituted operands); distinct by (rule, data) text. Every run ends with a size ladder: the same monitors at sizes 6..5000 around powers of two (operand counts, collection / string / key-list lengths, deciding positions first / middle / last, nesting depths, digit counts), and where the property has them far ladders (operand / element counts around 2^15 .. 2^17, nesting depths 128 .. 5000 on a thread with a 1 GiB stack, literals of 8 192 .. 70 000 digits, results beyond 16 MiB).",
             ["c04.model", "c04.leak", "c04.substitution"], cells=["channel:var-default-computed:value", "channel:some-computed:value", "channel:all-computed:value", "channel:reduce-accumulator:value", "substitution:cat", "substitution:<"]),
    "C05": P("operand lists for if / ?: / and / or: all lists of length 0..3 (quick) / 0..4 (thorough) over a 10-symbol alphabet (falsy and corner-truthy literals, data references, always-erroring poisons, uniquely numbered logging probes of either truthiness), random lists of length 4..7 with nested control flow; 4 data values. The value, Ok/Err and the captured log trace (which probes fired, in which order, how often) are judged against the reference model; ?: must equal if in outcome and trace; and / or must return one of the operand values. Non-trivial = the list holds a poison or a probe; distinct by (rule, data) text. Every run ends with a size ladder: the same monitors at sizes 6..5000 around powers of two (operand counts, collection / string / key-list lengths, deciding positions first / middle / last, nesting depths, digit counts), and where the property has them far ladders (operand / element counts around 2^15 .. 2^17, nesting depths 128 .. 5000 on a thread with a 1 GiB stack, literals of 8 192 .. 70 000 digits, results beyond 16 MiB).",
             ["c05.model", "c05.alias", "c05.value-not-boolean"], cells=["if:n=3:value", "if:n=0:value", "?::n=2:value", "and:n=3:value", "or:n=3:err"]),
    "C11": P("var against 10 fixed hostile trees and seeded random trees (keys with dots, backslashes, digits, empty, non-ASCII, index-like): for every node its derived (escaped) path must resolve to exactly that node, with and without a default (present - even null - wins), through a computed key; perturbed paths (changed segment, out-of-range and 64-bit extreme indices); every index -len-2..len+1 at every array / string node as integer key and as path segment; 53 key spellings; frame law (mutating subtrees off the path does not change the result). Judged against the path-resolution model and model-free laws. Non-trivial = path of >= 2 segments, an escaped character, a negative / boundary index, a multi-byte string index or a null-valued target; distinct by (rule, data) text. Every run ends with a size ladder: the same monitors at sizes 6..5000 around powers of two (operand counts, collection / string / key-list lengths, deciding positions first / middle / last, nesting depths, digit counts), and where the property has them far ladders (operand / element counts around 2^15 .. 2^17, nesting depths 128 .. 5000 on a thread with a 1 GiB stack, literals of 8 192 .. 70 000 digits, results beyond 16 MiB).",
             ["c11.model", "c11.derived-path", "c11.default", "c11.frame", "c11.whole-data"], cells=["var:derived-path:value", "var:integer-key:value", "var:index-segment:value", "var:perturbed:value", "var:integer-key-extreme:value"]),
    "C12": P("6 data trees (null-valued, empty-valued, nested, array, scalar data) x all key lists of length <= 2 and duplicate patterns (aba, aa, baab) over a 20-key pool (dotted, integer, negative index, null, empty, escaped) x thresholds 0..4 x 5 ways of supplying the list (operands, first-operand array, array followed by further operands, merge result, read from data); random trees and key lists of length 0..6. missing is judged against the model and against the implementation's own var (sentinel default); missing_some against the model and three laws (an absent key never counts as present; enough present keys give []; a non-empty result is the distinct missing keys in order). Non-trivial = a duplicate, a null key, a null-valued present key, or a threshold outside {1, 2}; distinct by (rule, data) text. Every run ends with a size ladder: the same monitors at sizes 6..5000 around powers of two (operand counts, collection / string / key-list lengths, deciding positions first / middle / last, nesting depths, digit counts), and where the property has them far ladders (operand / element counts around 2^15 .. 2^17, nesting depths 128 .. 5000 on a thread with a 1 GiB stack, literals of 8 192 .. 70 000 digits, results beyond 16 MiB).",
             ["c12.missing.model", "c12.missing.var-agreement", "c12.missing_some.model", "c12.missing_some.laws"], cells=["missing:duplicate-keys", "missing:null-key", "missing:null-valued-present-key", "missing_some:duplicate-keys", "missing_some:need=0:met", "missing_some:need=3:not-met"]),
    "C13": P("25 collections (literal and computed arrays incl. corner-truthiness elements, null, absent, nested results of map / filter / merge; strings, numbers, objects as non-collections) x 16 element expressions for map and filter (identity, scoped var, outer-data probes, nested map / reduce, logging, erroring); 20 collections x 14 fold expressions (non-commutative cat / - / merge, whole-context, outer-data probes) x 9 initial values for reduce; probe workloads counting evaluations per element; random nesting. Judged against the reference model (value + log trace), map length preservation and filter-subsequence identity. Non-trivial = every case; distinct by (rule, data) text. Every run ends with a size ladder: the same monitors at sizes 6..5000 around powers of two (operand counts, collection / string / key-list lengths, deciding positions first / middle / last, nesting depths, digit counts), and where the property has them far ladders (operand / element counts around 2^15 .. 2^17, nesting depths 128 .. 5000 on a thread with a 1 GiB stack, literals of 8 192 .. 70 000 digits, results beyond 16 MiB).",
             ["c13.model", "c13.map-length", "c13.filter-subsequence"], cells=["map:value", "map:err", "filter:value", "reduce:value", "reduce:err"]),
    "C14": P("30 collections (empty / null / empty-string literal and computed, literal arrays of expressions, computed arrays incl. operation-shaped data, multi-byte strings literal and computed, non-collections, literal arrays with probes and poisons after the deciding element) x 14 predicates x {all, some, none}; all strings of length 0..3 over the multi-byte alphabet; random. Judged against the reference model (value, short-circuit via the log trace), none = not some, all(p) = none(not p) on non-empty input, one element per character. Non-trivial = every case; distinct by (rule, data) text. Every run ends with a size ladder: the same monitors at sizes 6..5000 around powers of two (operand counts, collection / string / key-list lengths, deciding positions first / middle / last, nesting depths, digit counts), and where the property has them far ladders (operand / element counts around 2^15 .. 2^17, nesting depths 128 .. 5000 on a thread with a 1 GiB stack, literals of 8 192 .. 70 000 digits, results beyond 16 MiB).",
             ["c14.model", "c14.none-is-not-some", "c14.all-none-duality", "c14.chars"], cells=["all:empty-computed:false", "none:null-literal:true", "some:multibyte-string-computed:true", "all:bad-literal:err", "all:literal-with-probes-and-poison-after-decider:false"]),
    "C18": P("(rule text, data text, supply form) triples: texts from the other properties' corpora (log rules, erroring rules, big / small numbers, non-ASCII, escapes, strings with newlines, pretty-printed variants), invalid texts on either side (36 malformed forms, 1e400, duplicate keys), nesting at and beyond the recursion limit (127, 128, 129 ... 200 000 levels), three ways of supplying the data (argument, stdin, '-'); debug and release binaries. Each invocation's exit status and stdout are compared with the library reached as a separate process (log lines, then exactly one result line; on failure only the log lines and a non-zero status); chain law on log-free first stages. Non-trivial = the rule is an operation or an input is invalid; distinct by (rule, data, form).",
             ["c18.faithful", "c18.chain", "c18.tty-stdin", "c18.write-failure", "c18.environment-independence", "c18.memcheck-cli", "c01.cli"], inproc={"quick": [], "thorough": []}, proc={"quick": [PL.cli_lane, MC.memcheck_cli_lane], "thorough": [PL.cli_lane, MC.memcheck_cli_lane]},
             cells=["cli:arg:ok", "cli:stdin:ok", "cli:dash:ok", "cli:arg:parse-error", "cli:stdin:eval-error", "class:over-limit-data", "class:big-multibyte-data", "class:invalid-data-multibyte", "chain", "tty-stdin"], evaluations=500),
    "C19": P("JSON texts and the Python objects decoded from them (dict / list / str / int incl. beyond 64 bits / float / bool / None, non-finite floats) through jsonlogic_rs.apply (data omitted / given x serializer omitted / tagging wrapper x deserializer omitted / tagging wrapper) and jsonlogic_rs.apply_serialized (data omitted / None / given x deserializer omitted / given); malformed texts and over-limit nesting; debug and release extension, each in child interpreters. The return value must equal json.loads(library result) under a type-exact comparison (bool / int / float distinguished, floats by hex), errors must be exactly ValueError, supplied (de)serialisers must be called exactly once per argument. Non-trivial = the rule is an operation or an input is malformed; distinct by (rule, data) text.",
             ["c19.apply", "c19.apply_serialized", "c19.serializer-calls", "c19.stateless-wrapper", "c19.memcheck-py"], inproc={"quick": [], "thorough": []}, proc={"quick": [PL.py_lane, MC.memcheck_py_lane], "thorough": [PL.py_lane, MC.memcheck_py_lane]},
             cells=["py:apply_serialized(text,text):value", "py:apply_serialized(text):value", "py:apply(obj,obj,ser,de):value", "py:apply(obj):value", "py:apply_serialized(text,text):error", "py:apply(nan-rule):error"], evaluations=500),
    "C01": P("totality of apply and of the public js_op helpers: 35 operators x all ordered pairs of 65 extreme values (64-bit integer extremes, 2^53 / 2^63 / 2^64 neighbours, +-1e308, subnormals, multi-byte strings, numeric strings naming the extremes, odd containers) in bracketed, bare and three-operand index-taking forms; extreme numeric path segments and integer keys; results forced out of range; the deepest chains serde_json delivers (63 bracketed / 127 bare levels) of every operator and in every operand position, 127-level data reached by 19 operators, 20 000-element and 60 000-character documents; random trees (depth <= 5) with extreme values spliced in; every helper on all ordered pairs of 212 values. Lanes: debug, release, release+overflow-checks (all every run), AddressSanitizer and Miri (thorough), the real CLI (debug + release; exit status in {0,1}, no signal, no 'panicked'; nesting 129 .. 200 000 levels) and the real Python extension (only ValueError, interpreter survives). Bounded termination: <= 10 s thread-CPU per call on documents <= 64 KiB. Non-trivial = every case (all are aimed at panics); distinct by (rule, data) text.",
             ["c01.apply", "c01.helpers", "c01.cpu-bound", "c01.cli"],
             inproc={"quick": [("relchk", 16, 3.0), ("dev", 16, 0.5), ("release", 16, 3.0)],
                     "thorough": [("relchk", 16, 2.0), ("dev", 16, 0.3), ("release", 16, 2.0), ("asan", 16, 0.1), ("miri", 8, None)]},
             proc={"quick": [PL.cli_lane, PL.py_lane, PL.amplify_lane], "thorough": [PL.cli_lane, PL.py_lane, PL.amplify_lane, MC.memcheck_cli_lane, MC.memcheck_py_lane]},
             cells=["amplify:small:answered", "wide-lazy:value", "error-echo:20KB:error", "deep-value:beyond-limit:error", "mutated-text:value", "matrix-2:value", "matrix-2:error", "matrix-bare:value", "deep-bare:127:*", "deep-bracketed:63:*", "deep-data:value", "wide:value", "range:overflow:error", "index-key:value", "helper:abstract_plus", "class:over-limit-rule"],
             extra_assume=["'never hangs' is restated as a bound: every call on a document of at most 64 KiB finishes within 10 s of thread CPU time (observed maximum is reported); a wall-clock watchdog firing is inconclusive, not a violation",
                           "domain: documents the text interfaces can deliver (serde_json recursion limit 128)"]),
    "C17": P("a pool of (rule, data) pairs (same rule on different data, different rules on the same data, erroring and logging calls; 120 x 8 quick, 400 x 12 thorough) is first evaluated once per pair (isolated result, log trace and allocation count), then driven through randomised histories biased towards 'same rule, other data' / 'other rule, same data' / exact repeats; each result and log trace must equal the isolated one, inputs must be unchanged, net live heap after the call must be 0 and the allocation count must equal the isolated count (hidden caches / memos). Concurrency: 2 / 4 / 16 threads on a barrier share the pool (half of the calls on 8 hot pairs), random yields and spins; each result must equal the isolated one and the multiset of printed lines must be the union of the isolated traces; lanes: native, ThreadSanitizer (build-std), Miri with different seeds. Process level: one call per fresh process vs the same calls in one process; strace deny-list on the real CLI (only writes to fd 1 / 2). Non-trivial = history steps of the two biased kinds and distinct completion orders; distinct by (pair, predecessor) / schedule signature.",
             ["c17.history", "c17.immutability", "c17.heap-conservation", "c17.alloc-determinism", "c17.concurrent", "c17.concurrent-effects", "c17.effects", "c17.log-identity", "c17.syscalls", "c17.fresh-process", "c17.stderr-silent", "c17.environment-independence"],
             inproc={"quick": [("relchk", 16, 2.0), ("release", 8, 0.5), ("tsan", 8, 0.25), ("miri", 4, None)],
                     "thorough": [("relchk", 16, 2.0), ("tsan", 16, 0.5), ("miri", 16, None)]},
             proc={"quick": [PL.strace_lane, PL.fresh_process_lane, PL.env_lane, PL.coldstart_lane], "thorough": [PL.strace_lane, PL.fresh_process_lane, PL.env_lane, PL.coldstart_lane]},
             cells=["history:same-rule-other-data", "history:other-rule-same-data", "history:exact-repeat", "concurrent:threads=16", "concurrent:threads=2"],
             extra_assume=["'every schedule' is sampled, not enumerated: the evidence reports the number of distinct completion orders, TSan executions and Miri seeds",
                           "heap conservation is measured by a counting global allocator owned by the harness (per-thread counters); it is compiled out in the sanitizer and Miri lanes"]),
}


def sanitizer_reports(err):
    """[(kind, first in-repo frame)] for every ThreadSanitizer / AddressSanitizer report block in stderr."""
    import re
    out = []
    blocks = re.split(r"(?=WARNING: ThreadSanitizer|ERROR: AddressSanitizer|ERROR: LeakSanitizer)", err)
    for b in blocks:
        m = re.match(r"(WARNING: ThreadSanitizer|ERROR: AddressSanitizer|ERROR: LeakSanitizer): ([^\n(]*)", b)
        if not m:
            continue
        kind = m.group(2).strip().replace(" ", "-")[:40]
        frame = "?"
        for fr in re.findall(r"#\d+ 0x[0-9a-f]+ in ([^\s]+)", b):
            if "jsonlogic_rs" in fr:
                frame = re.sub(r"::h[0-9a-f]{16}$", "", fr)[:80]
                break
        out.append((kind, frame))
    # dedupe
    seen, uniq = set(), []
    for x in out:
        if x not in seen:
            seen.add(x)
            uniq.append(x)
    return uniq


def miri_summary(err):
    for line in err.splitlines():
        if line.startswith("error:"):
            return line[:120].replace(" ", "-")
    return "report"


def text_depth(text):
    """Maximal bracket nesting of JSON text(s) (string contents skipped)."""
    d = mx = 0
    instr = esc = False
    for ch in text:
        if instr:
            if esc:
                esc = False
            elif ch == "\\":
                esc = True
            elif ch == '"':
                instr = False
        elif ch == '"':
            instr = True
        elif ch in "[{":
            d += 1
            mx = max(mx, d)
        elif ch in "]}":
            d -= 1
    return mx


def handle_failures(pid, lane, failures, agg, env=None):
    """Abnormal shard termination. A harness bug or a watchdog is inconclusive; a crash of the
    code under test is pinned to its in-flight call by a trace re-run."""
    for f in failures:
        err = f["stderr"]
        san = sanitizer_reports(err)
        if san or f.get("miri_report"):
            # a sanitizer / Miri report is an observation about the code under test
            mon = {"C17": "c17.sanitizer", "C01": "c01.sanitizer"}.get(pid, pid.lower() + ".sanitizer")
            if not san:
                san = [("miri", miri_summary(err))]
            for kind, frame in san[:10]:
                agg["violations"].append({"monitor": mon, "sig": "%s:%s:%s" % (lane, kind, frame), "rule": None, "data": None,
                                          "expected": "no sanitizer / interpreter report", "got": {"report": err[:3000], "exit": f["rc"]},
                                          "note": "%s reported %s" % (lane, kind), "lane": lane, "shard": f["shard"], "count": 1, "direct": False})
            m = agg["monitors"].setdefault(mon, {"observed": 0, "judged": 0, "unjudged": 0, "violations": 0})
            m["violations"] += len(san)
            continue
        if f.get("hang"):
            h = f["hang"]
            mon = pid.lower() + ".termination"
            op = "?"
            try:
                r = h.get("rule")
                op = list(r.keys())[0] if isinstance(r, dict) and len(r) == 1 else type(r).__name__
            except Exception:
                pass
            agg["violations"].append({"monitor": mon, "sig": "no-result-within-cpu-budget:%s" % op, "rule": h.get("rule"), "data": h.get("data"),
                                      "expected": "a value or an error within %s s of CPU time" % (h.get("budget_ns", 0) / 1e9),
                                      "got": {"cpu_ns_in_call": h.get("cpu_ns_in_call"), "lane": lane},
                                      "note": "the call was still running after its CPU-time budget (bounded restatement of 'terminates'); the shard was stopped",
                                      "lane": lane, "shard": f["shard"], "count": 1, "direct": False})
            m = agg["monitors"].setdefault(mon, {"observed": 0, "judged": 0, "unjudged": 0, "violations": 0})
            m["observed"] += 1
            m["judged"] += 1
            m["violations"] += 1
            continue
        if f["rc"] is None:
            raise O.Inconclusive("lane %s shard %d: wall-clock watchdog fired after %.0fs (not a verdict)" % (lane, f["shard"], f["wall_s"]))
        if "HARNESS-PANIC" in err or f["rc"] == 2:
            raise O.Inconclusive("lane %s shard %d: the harness itself failed: %s" % (lane, f["shard"], err[-600:]))
        last, rc2 = O.trace_last_call(f, env)
        detail = {"lane": lane, "shard": f["shard"], "exit": f["rc"], "in_flight_call": last, "stderr_tail": err[-800:]}
        if last and (pid == "C01" or text_depth(last) <= 127):
            # every property promises a value or an error for the calls it quantifies over: a process
            # that dies in such a call violates it (for C02..C16 only when the in-flight document is
            # one the text interfaces can deliver; deeper ones - Rust API only - stay C01's business,
            # whose domain excludes them)
            parts = last.split(" ", 3)
            try:
                rule_data = parts[3]
                dec = json.JSONDecoder()
                rule, k = dec.raw_decode(rule_data)
                data, _ = dec.raw_decode(rule_data[k:].lstrip())
            except Exception:
                rule, data = last, None
            pmon = "c01.process" if pid == "C01" else pid.lower() + ".process"
            m = agg["monitors"].setdefault(pmon, {"observed": 0, "judged": 0, "unjudged": 0, "violations": 0})
            m["observed"] += 1
            m["judged"] += 1
            m["violations"] += 1
            agg["violations"].append({"monitor": pmon, "sig": "abnormal-termination:%s:%s" % (lane, json.dumps(f["rc"])),
                                      "rule": rule, "data": data, "expected": "a value or an error",
                                      "got": detail, "note": "the shard process died while this call was in flight", "lane": lane,
                                      "shard": f["shard"], "count": 1, "direct": True})
        else:
            raise O.Inconclusive("lane %s shard %d terminated abnormally (exit %s) in call %s; totality is C01's subject" % (lane, f["shard"], f["rc"], last))


def run_plan(pid, tier, seed, agg):
    plan = PLANS[pid]
    meta = {"rule": plan["rule"], "assumptions": plan["assumptions"]}
    relchk = O.build_lane("relchk")
    meta["selftest"] = O.selftest(relchk)
    meta["inconclusive"] = []
    for lane, nshards, scale in plan["inproc"][tier]:
      try:
        t0 = time.time()
        if lane == "miri":
            O.build_miri()
            reports, failures = O.run_miri(pid, tier, seed, list(range(nshards)))
            for r in reports:
                O.merge_report(agg, r, lane)
            O.lane_record(agg, lane, "Miri (UB + data-race interpreter), one process per -Zmiri-seed", reports, failures, time.time() - t0)
            agg["extra"]["miri_seeds"] = nshards
            handle_failures(pid, lane, failures, agg)
            continue
        binary = relchk if lane == "relchk" else O.build_lane(lane)
        env = {"TSAN_OPTIONS": "halt_on_error=0 exitcode=66 second_deadlock_stack=1", "ASAN_OPTIONS": "detect_leaks=1 halt_on_error=1 abort_on_error=0 exitcode=67 detect_stack_use_after_return=0"}
        reports, failures = O.run_shards(binary, pid, tier, seed, lane, nshards, extra_env=env, scale=scale)
        for r in reports:
            O.merge_report(agg, r, lane)
        tool = {"relchk": "release + overflow-checks + debug-assertions", "dev": "debug profile", "release": "release profile",
                "asan": "AddressSanitizer (nightly)", "tsan": "ThreadSanitizer (nightly, build-std)"}.get(lane, lane)
        O.lane_record(agg, lane, tool, reports, failures, time.time() - t0)
        handle_failures(pid, lane, failures, agg, env)
      except O.Inconclusive as e:
        meta["inconclusive"].append("lane %s: %s" % (lane, e))
    for fn in plan["proc"][tier]:
      try:
        fn(pid, tier, seed, agg, meta)
      except O.Inconclusive as e:
        meta["inconclusive"].append("%s: %s" % (fn.__name__, e))
    return meta


def replay(pid, path):
    rec = json.load(open(path))
    lane = rec.get("lane") or "relchk"
    if lane in O.LANES:
        binary = O.build_lane(lane)
        rc, out, err, dt = O.run_cmd([binary, "replay", path], timeout=3600)
        os.sys.stdout.write(out.decode("utf8", "replace"))
        if rc in (0, 1):
            return rc
        os.sys.stderr.write(err.decode("utf8", "replace")[-2000:])
        return 2
    import proclanes
    return proclanes.replay(pid, rec, path)
