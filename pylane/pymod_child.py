"""Child interpreter of the Python lane (C19, C01 at the Python boundary).
Usage: python pymod_child.py CASES.json OUT.json   (PYTHONPATH must hold the assembled package)

For each case {rule text, data text, oracle} it drives jsonlogic_rs.apply and
jsonlogic_rs.apply_serialized in every combination of omitted / supplied optional arguments
and judges: returned value == json.loads(library result) under a type-exact comparison;
library error / malformed text -> exactly ValueError; supplied (de)serialisers called exactly
as specified. A progress record is flushed before every call so that a crash of the
interpreter is attributable."""
import hashlib, json, os, signal, sys, math

# Environment-independence variant (JL_PY_PERTURB=A|B, C19): what the module returns is fixed by its
# arguments, so it cannot depend on an environment variable. While the module is imported and while a
# call is in flight, every variable that is looked up and does not exist is answered ("1" in A, "0" in
# B); natively (std::env -> getenv) the same is done by the LD_PRELOAD interposer, armed around each
# call. All the ordinary monitors then run unchanged against the unperturbed library oracle.
PERTURB = os.environ.get("JL_PY_PERTURB", "")
ARMED = [False]
CONSULTED = {}
_shim_arm = None
if PERTURB:
    import collections.abc

    class _PerturbedEnviron(collections.abc.MutableMapping):
        def __init__(self, real):
            self._real = real

        def __getitem__(self, k):
            try:
                return self._real[k]
            except KeyError:
                if ARMED[0]:
                    CONSULTED[str(k)] = CONSULTED.get(str(k), 0) + 1
                    return "1" if PERTURB == "A" else "0"
                raise

        def __contains__(self, k):
            if k in self._real:
                return True
            if ARMED[0]:
                CONSULTED[str(k)] = CONSULTED.get(str(k), 0) + 1
                return True
            return False

        def __setitem__(self, k, v):
            self._real[k] = v

        def __delitem__(self, k):
            del self._real[k]

        def __iter__(self):
            return iter(self._real)

        def __len__(self):
            return len(self._real)

    os.environ = _PerturbedEnviron(os.environ)
    try:
        import ctypes
        _shim_arm = ctypes.CDLL(None).jl_shim_arm
    except Exception:
        _shim_arm = None
    ARMED[0] = True

import jsonlogic_rs

ARMED[0] = False


def exact_eq(a, b):
    """Structural equality that distinguishes bool / int / float and compares floats bit-for-bit."""
    if type(a) is not type(b):
        return False
    if isinstance(a, float):
        return a.hex() == b.hex() or (math.isnan(a) and math.isnan(b))
    if isinstance(a, list):
        return len(a) == len(b) and all(exact_eq(x, y) for x, y in zip(a, b))
    if isinstance(a, dict):
        return list(a.keys()) == list(b.keys()) and all(exact_eq(a[k], b[k]) for k in a)
    return a == b


class Tag:
    """Tagging (de)serialiser wrappers: record every call."""
    def __init__(self):
        self.ser_calls = []
        self.de_calls = []

    def ser(self, v):
        self.ser_calls.append(v)
        return json.dumps(v)

    def de(self, s):
        self.de_calls.append(s)
        return ("TAGGED", json.loads(s))


def main():
    cases_file, out_file = sys.argv[1], sys.argv[2]
    spec = json.load(open(cases_file))
    prog = open(out_file + ".progress", "w")
    rep = {"evaluations": 0, "monitors": {}, "violations": [], "cells": {}, "nontrivial_hashes": [], "samples": [], "nontrivial_total": 0}

    def mon(name):
        return rep["monitors"].setdefault(name, {"observed": 0, "judged": 0, "unjudged": 0, "violations": 0})

    def cell(c):
        rep["cells"][c] = rep["cells"].get(c, 0) + 1

    seen_sigs = set()

    def V(monitor, sig, rule, data, expected, got, note):
        mon(monitor)["violations"] += 1
        if (monitor, sig) in seen_sigs and len(rep["violations"]) > 50:
            return
        seen_sigs.add((monitor, sig))
        rep["violations"].append({"monitor": monitor, "sig": sig, "rule": rule, "data": data, "expected": expected, "got": got, "note": note, "count": 1})

    def call(label, fn, rule, data):
        prog.seek(0)
        prog.write(json.dumps({"call": label, "case": CURRENT[0], "rule": rule[:2000], "data": data[:2000]}))
        prog.truncate()
        prog.flush()
        rep["evaluations"] += 1
        # bounded termination: the native call holds the GIL, so no Python-level timeout can fire;
        # an ITIMER_PROF with the default disposition ends the process after 20 s of CPU in one call
        signal.setitimer(signal.ITIMER_PROF, 20.0)
        if PERTURB:
            ARMED[0] = True
            if _shim_arm is not None:
                _shim_arm(1)
        try:
            return ("ok", fn())
        except BaseException as e:  # noqa: judged below
            return ("exc", e)
        finally:
            if PERTURB:
                if _shim_arm is not None:
                    _shim_arm(0)
                ARMED[0] = False
            signal.setitimer(signal.ITIMER_PROF, 0)

    def judge(label, monitor, res, oracle, rule, data, want_value, transform=None):
        """want_value: the decoded expected result (or the sentinel NOVALUE when an error is expected)."""
        m = mon(monitor)
        m["observed"] += 1
        m["judged"] += 1
        kind, val = res
        expect_err = want_value is NOVALUE
        # C01: only an ordinary ValueError, never SystemError (a Rust panic) or anything else
        # a subclass of ValueError (e.g. UnicodeEncodeError for text that cannot be UTF-8) IS a
        # ValueError for every caller; anything else is a different exception type
        if kind == "exc" and not isinstance(val, ValueError):
            cls = type(val).__name__
            V("c01.python" if cls in ("SystemError", "MemoryError", "RecursionError") else monitor, "wrong-exception:%s:%s" % (cls, label), rule, data,
              "ValueError" if expect_err else {"value": repr(want_value)[:300]}, {"exception": cls, "message": str(val)[:300]},
              "the module raised an exception that is not exactly ValueError")
            return
        if expect_err:
            cell("py:%s:error" % label)
            if kind != "exc":
                V(monitor, "value-instead-of-ValueError:%s" % label, rule, data, "ValueError", {"value": repr(val)[:300]}, "a library error / malformed text did not surface as ValueError (silent wrong value)")
            return
        cell("py:%s:value" % label)
        if kind == "exc":
            V(monitor, "ValueError-instead-of-value:%s" % label, rule, data, {"value": repr(want_value)[:300]}, {"exception": "ValueError", "message": str(val)[:300]}, "the library evaluates this input but the module raised")
            return
        got = val
        if transform:
            ok, got = transform(val)
            if not ok:
                V(monitor, "deserializer-not-applied:%s" % label, rule, data, "the supplied deserializer's return value", {"value": repr(val)[:300]}, "the supplied deserializer was not applied exactly once to the result text")
                return
        if not exact_eq(got, want_value):
            V(monitor, "value-differs:%s" % label, rule, data, {"value": repr(want_value)[:400]}, {"value": repr(got)[:400]}, "the returned value is not json.loads(library result) (type-exact comparison)")

    skip_until = int(sys.argv[3]) if len(sys.argv) > 3 else -1
    for c in spec["cases"]:
        if c["i"] <= skip_until:
            continue
        rule_t, data_t, oracle = c["rule"], c["data"], c["oracle"]
        CURRENT[0] = c["i"]
        ret = oracle["ret"]
        want = json.loads(ret["ok"]) if "ok" in ret else NOVALUE
        nontrivial = rule_t.lstrip().startswith("{") or "ok" not in ret
        if nontrivial:
            rep["nontrivial_total"] += 1
            rep["nontrivial_hashes"].append(hashlib.sha1((rule_t + "\x00" + data_t).encode("utf8", "surrogatepass")).hexdigest()[:16])
        if "panic" in ret:
            want = NOVALUE  # the library itself panics: only C01's clause (no crash, ValueError) is judged
        # ---- apply_serialized: texts go in as they are
        # (a) everything supplied
        t = Tag()
        res = call("ser-all", lambda: jsonlogic_rs.apply_serialized(rule_t, data_t, t.de), rule_t, data_t)
        judge("apply_serialized(text,text,de)", "c19.apply_serialized", res, oracle, rule_t, data_t, want,
              transform=lambda v: (isinstance(v, tuple) and len(v) == 2 and v[0] == "TAGGED" and len(t.de_calls) == 1 and t.de_calls[0] == ret.get("ok"), v[1] if isinstance(v, tuple) and len(v) == 2 else v))
        # (b) deserializer omitted: the standard decoder
        res = call("ser-no-de", lambda: jsonlogic_rs.apply_serialized(rule_t, data_t), rule_t, data_t)
        judge("apply_serialized(text,text)", "c19.apply_serialized", res, oracle, rule_t, data_t, want)
        # (c) data omitted means null
        if data_t.strip() == "null":
            res = call("ser-no-data", lambda: jsonlogic_rs.apply_serialized(rule_t), rule_t, data_t)
            judge("apply_serialized(text)", "c19.apply_serialized", res, oracle, rule_t, data_t, want)
            res = call("ser-none-data", lambda: jsonlogic_rs.apply_serialized(rule_t, None, None), rule_t, data_t)
            judge("apply_serialized(text,None,None)", "c19.apply_serialized", res, oracle, rule_t, data_t, want)
        # ---- apply: Python objects. Only when both texts decode; the object route re-encodes
        # with json.dumps, so its expectation comes from the library on the re-encoded texts.
        try:
            rule_o, data_o = json.loads(rule_t), json.loads(data_t)
        except (ValueError, RecursionError):
            continue
        try:
            r2, d2 = json.dumps(rule_o), json.dumps(data_o)
        except (ValueError, RecursionError):
            continue
        o2 = LIB.ask(r2, d2)
        want2 = json.loads(o2["ret"]["ok"]) if "ok" in o2["ret"] else NOVALUE
        for ser_given in (False, True):
            for de_given in (False, True):
                t = Tag()
                kw = {}
                if ser_given:
                    kw["serializer"] = t.ser
                if de_given:
                    kw["deserializer"] = t.de
                label = "apply(obj,obj%s%s)" % (",ser" if ser_given else "", ",de" if de_given else "")
                res = call(label, lambda: jsonlogic_rs.apply(rule_o, data_o, **kw), r2, d2)
                tr = None
                if de_given:
                    tr = lambda v, t=t, o2=o2: (isinstance(v, tuple) and len(v) == 2 and v[0] == "TAGGED" and len(t.de_calls) == 1 and t.de_calls[0] == o2["ret"].get("ok"), v[1] if isinstance(v, tuple) and len(v) == 2 else v)
                judge(label, "c19.apply", res, o2, r2, d2, want2, transform=tr)
                if ser_given:
                    m = mon("c19.serializer-calls")
                    m["observed"] += 1
                    m["judged"] += 1
                    if not (len(t.ser_calls) == 2 and exact_eq(t.ser_calls[0], rule_o) and exact_eq(t.ser_calls[1], data_o)):
                        V("c19.serializer-calls", "serializer-calls", r2, d2, "serializer(rule) then serializer(data), once each", {"calls": repr(t.ser_calls)[:300]}, "the supplied serializer was not called exactly once per argument")
        if data_o is None:
            res = call("apply-no-data", lambda: jsonlogic_rs.apply(rule_o), r2, d2)
            judge("apply(obj)", "c19.apply", res, o2, r2, d2, want2)
        if len(rep["samples"]) < 3 and "ok" in ret and rule_t.startswith("{"):
            rep["samples"].append({"apply_serialized": [rule_t[:200], data_t[:200]], "library": ret["ok"][:200]})

    # ---- inputs no JSON text round-trip produces -------------------------------------------
    # texts that cannot be encoded as UTF-8 (lone surrogates): never a value, always ValueError
    for bad in ('"\ud800"', '{"==":["\ud800","\udfff"]}', '"x\udfff\ud800"', '{"cat":["a\udc00"]}'):
        for label, fn in (("apply_serialized(surrogate-rule)", lambda: jsonlogic_rs.apply_serialized(bad, "null")),
                          ("apply_serialized(surrogate-data)", lambda: jsonlogic_rs.apply_serialized('{"var":""}', bad)),
                          ("apply_serialized(surrogate,de)", lambda: jsonlogic_rs.apply_serialized(bad, None, json.loads))):
            res = call(label, fn, ascii(bad), "null")
            judge(label, "c19.apply_serialized", res, None, ascii(bad), "null", NOVALUE)
    # dicts with non-str keys are JSON-representable for json.dumps (keys are coerced): the module
    # must agree with the library on the text json.dumps produces
    odd = [{1: "one", "b": 2}, {None: 1, "x": [1]}, {True: 2, "a": {2: 3}}, {1.5: 0}, {"a": 1, 2: "two"}, [{"k": 1, 0: "zero"}]]
    for o in odd:
        for rule_o, data_o in (({"var": "a"}, o), ({"var": ""}, o), ({"merge": [o, 1]}, None), ({"cat": [{"var": ""}]}, o), ({"in": [{"var": "0"}, [o]]}, o)):
            try:
                r2, d2 = json.dumps(rule_o), json.dumps(data_o)
            except (TypeError, ValueError):
                continue
            o2 = LIB.ask(r2, d2)
            want2 = json.loads(o2["ret"]["ok"]) if "ok" in o2["ret"] else NOVALUE
            res = call("apply(non-str-keys)", lambda: jsonlogic_rs.apply(rule_o, data_o), r2, d2)
            judge("apply(non-str-keys)", "c19.apply", res, o2, r2, d2, want2)
    # keyword arguments, subclasses of the built-in types
    class S(str):
        pass
    class D(dict):
        pass
    class L(list):
        pass
    for rule_o, data_o in (({"var": "a"}, {"a": [1, 2.0, "x"]}), ({"+": [1, {"var": "n"}]}, {"n": 41}), ({"cat": [{"var": ""}]}, "plain")):
        r2, d2 = json.dumps(rule_o), json.dumps(data_o)
        o2 = LIB.ask(r2, d2)
        want2 = json.loads(o2["ret"]["ok"]) if "ok" in o2["ret"] else NOVALUE
        variants = [
            ("apply(kw)", lambda: jsonlogic_rs.apply(value=rule_o, data=data_o)),
            ("apply(kw-all)", lambda: jsonlogic_rs.apply(value=rule_o, data=data_o, serializer=json.dumps, deserializer=json.loads)),
            ("apply(subclasses)", lambda: jsonlogic_rs.apply(D(rule_o), L(data_o) if isinstance(data_o, list) else (D(data_o) if isinstance(data_o, dict) else S(data_o)))),
            ("apply_serialized(kw)", lambda: jsonlogic_rs.apply_serialized(value=r2, data=d2)),
            ("apply_serialized(kw-de)", lambda: jsonlogic_rs.apply_serialized(value=r2, data=d2, deserializer=json.loads)),
            ("apply_serialized(str-subclass)", lambda: jsonlogic_rs.apply_serialized(S(r2), S(d2))),
        ]
        for label, fn in variants:
            res = call(label, fn, r2, d2)
            judge(label, "c19.apply", res, o2, r2, d2, want2)
    # ---- the wrapper keeps no state: the same objects mutated between calls -----------------
    m = mon("c19.stateless-wrapper")
    seqs = []
    r = {"var": "a"}
    d = {"a": 1, "b": 2}
    seqs.append((r, d, lambda: r.__setitem__("var", "b")))
    r_l = {"+": [1, 2]}
    seqs.append((r_l, None, lambda: r_l["+"].append(39)))
    r_i = {">": [{"var": "temp"}, 30]}
    d_i = {"temp": 15}
    seqs.append((r_i, d_i, lambda: d_i.__setitem__("temp", 99)))
    r_n = {"if": [{"var": "x"}, "yes", "no"]}
    d_n = {"x": 0}
    seqs.append((r_n, d_n, lambda: r_n["if"].__setitem__(0, True)))
    r_a = [1, {"var": "a"}]
    seqs.append((r_a, {"a": 1}, lambda: r_a.append(3)))
    for rule_o, data_o, mutate in seqs:
        for use_ser in (False, True):
            for rounds in range(3):
                r2, d2 = json.dumps(rule_o), json.dumps(data_o)
                o2 = LIB.ask(r2, d2)
                want2 = json.loads(o2["ret"]["ok"]) if "ok" in o2["ret"] else NOVALUE
                kw = {"serializer": json.dumps} if use_ser else {}
                res = call("apply(reused-object)", lambda: jsonlogic_rs.apply(rule_o, data_o, **kw), r2, d2)
                judge("apply(reused-object)", "c19.stateless-wrapper", res, o2, r2, d2, want2)
                res = call("apply_serialized(after-apply)", lambda: jsonlogic_rs.apply_serialized(r2, d2), r2, d2)
                judge("apply_serialized(after-apply)", "c19.stateless-wrapper", res, o2, r2, d2, want2)
                mutate()
    # ---- every call returns a value of its own: mutating a returned list / dict and repeating the call ----
    for rule_o, data_o in (({"var": "a"}, {"a": [1, 2, {"k": "v"}]}), ({"merge": [[1], [2]]}, None), ({"var": ""}, {"x": {"y": [0]}}), ({"map": [[1, 2], {"+": [{"var": ""}, 1]}]}, None), ({"cat": ["a", "b"]}, None)):
        r2, d2 = json.dumps(rule_o), json.dumps(data_o)
        o2 = LIB.ask(r2, d2)
        want2 = json.loads(o2["ret"]["ok"]) if "ok" in o2["ret"] else NOVALUE
        for label, fn in (("apply(repeat-after-mutating-result)", lambda: jsonlogic_rs.apply(rule_o, data_o)), ("apply_serialized(repeat-after-mutating-result)", lambda: jsonlogic_rs.apply_serialized(r2, d2)),
                          ("apply_serialized(de, repeat-after-mutating-result)", lambda: jsonlogic_rs.apply_serialized(r2, d2, json.loads))):
            for rounds in range(3):
                res = call(label, fn, r2, d2)
                judge(label, "c19.stateless-wrapper", res, o2, r2, d2, want2)
                if res[0] == "ok":
                    got = res[1]
                    if isinstance(got, list):
                        got.append("MUTATED-BY-CALLER")
                    elif isinstance(got, dict):
                        got["MUTATED-BY-CALLER"] = True
    # ---- a `log` whose line cannot be written (fd 1 = /dev/full): a value or a ValueError, never a
    # Rust panic surfacing as SystemError; and whatever happened there must not change later calls
    try:
        sys.stdout.flush()
        keep = os.dup(1)
        bad = os.open("/dev/full", os.O_WRONLY)
        os.dup2(bad, 1)
        try:
            for rule_o in ({"log": 1}, {"cat": [{"log": "a"}, "b"]}, {"map": [[1, 2], {"log": {"var": ""}}]}):
                r2 = json.dumps(rule_o)
                res = call("apply(log, stdout unwritable)", lambda: jsonlogic_rs.apply(rule_o, None), r2, "null")
                m = mon("c01.python")
                m["observed"] += 1
                m["judged"] += 1
                cell("py:log-unwritable-stdout:" + ("value" if res[0] == "ok" else type(res[1]).__name__))
                if res[0] == "exc" and not isinstance(res[1], ValueError):
                    V("c01.python", "exception-type:%s:log-unwritable-stdout" % type(res[1]).__name__, r2, "null", "a value or ValueError", repr(res[1])[:300],
                      "a log whose line could not be written (fd 1 = /dev/full) surfaced as something other than a value or ValueError")
        finally:
            os.dup2(keep, 1)
            os.close(keep)
            os.close(bad)
        for rule_o, data_o in (({"var": "a"}, {"a": 1}), ({"+": [1, 2]}, None), ({"/": [1]}, None), ({"cat": ["x", {"var": ""}]}, "y")):
            r2, d2 = json.dumps(rule_o), json.dumps(data_o)
            o2 = LIB.ask(r2, d2)
            want2 = json.loads(o2["ret"]["ok"]) if "ok" in o2["ret"] else NOVALUE
            res = call("apply(after unwritable stdout)", lambda: jsonlogic_rs.apply(rule_o, data_o), r2, d2)
            judge("apply(after unwritable stdout)", "c19.stateless-wrapper", res, o2, r2, d2, want2)
    except OSError:
        cell("py:log-unwritable-stdout:skipped")
    # non-finite floats and other objects json.dumps turns into non-JSON text -> ValueError
    for obj in (float("nan"), float("inf"), [1, float("-inf")], {"a": float("nan")}):
        for label, fn in (("apply(nan-rule)", lambda: jsonlogic_rs.apply(obj, None)), ("apply(nan-data)", lambda: jsonlogic_rs.apply({"var": ""}, obj))):
            res = call(label, fn, repr(obj), "null")
            judge(label, "c19.apply", res, None, repr(obj), "null", NOVALUE)
    # integers beyond 64 bits are JSON-representable Python objects
    for big in (2 ** 64, -(2 ** 63) - 1, 10 ** 30, 2 ** 63):
        r2 = json.dumps({"var": ""})
        d2 = json.dumps([big])
        o2 = LIB.ask(r2, d2)
        want2 = json.loads(o2["ret"]["ok"]) if "ok" in o2["ret"] else NOVALUE
        res = call("apply(bigint)", lambda: jsonlogic_rs.apply({"var": ""}, [big]), r2, d2)
        judge("apply(bigint)", "c19.apply", res, o2, r2, d2, want2)
    if PERTURB:
        rep["samples"].append({"perturbed_environment": PERTURB, "native_interposer_armed": _shim_arm is not None, "variables_looked_up_during_import_or_calls": dict(list(CONSULTED.items())[:20])})
    json.dump(rep, open(out_file, "w"))


class NoValue:
    def __repr__(self):
        return "<an error>"


NOVALUE = NoValue()
CURRENT = [-1]


class Lib:
    """The library as a separate process (jlmon libcall), kept open for the re-encoded texts."""
    def __init__(self):
        import subprocess
        env = {k: v for k, v in os.environ.items() if k not in ("LD_PRELOAD", "JL_SHIM_MODE", "JL_PY_PERTURB")}
        self.p = subprocess.Popen([os.environ["JL_LIBCALL"], "libcall"], stdin=subprocess.PIPE, stdout=subprocess.PIPE, env=env)

    def ask(self, rule, data):
        self.p.stdin.write((json.dumps({"rule": rule, "data": data}) + "\n").encode("utf8"))
        self.p.stdin.flush()
        logs = []
        while True:
            line = self.p.stdout.readline()
            if not line:
                raise RuntimeError("libcall died")
            line = line.decode("utf8", "replace").rstrip("\n")
            if line.startswith("@@RET "):
                return {"logs": logs, "ret": json.loads(line[6:])}
            logs.append(line)


if __name__ == "__main__":
    LIB = Lib()
    main()
