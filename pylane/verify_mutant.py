"""Confirm a candidate breaking change before keeping it under /verif/seeded/:
  python3 pylane/verify_mutant.py <PID> <n> [--needs "..."]
reads /tmp/wt-<PID>-out/m<n>.diff + m<n>_demo.rs, and in a private worktree (/tmp/vfy, own
target dir) checks: patch applies; the 74 baseline tests pass with it; the demo FAILS with
it and PASSES without it. On success writes seeded/<PID>-m<n>/{patch.diff, demo.rs, meta.json}."""
import json, os, shutil, subprocess, sys

REPO = "/repo"
WT = "/tmp/vfy" + os.environ.get("VFY_SLOT", "")
TGT = WT + "-target"


def sh(cmd, cwd=None, env=None):
    e = dict(os.environ)
    e.update({"CARGO_TARGET_DIR": TGT, "CARGO_NET_OFFLINE": "true"})
    if env:
        e.update(env)
    return subprocess.run(cmd, cwd=cwd, env=e, stdout=subprocess.PIPE, stderr=subprocess.STDOUT, text=True)


def main():
    pid, n = sys.argv[1], sys.argv[2]
    src = "/tmp/wt-%s-out" % pid
    tag = "m"
    if "--round2" in sys.argv:
        src = "/tmp/w2-%s-out" % pid
        tag = "r2m"
    if "--round3" in sys.argv:
        src = "/tmp/w3-%s-out" % pid
        tag = "r3m"
    if "--round4" in sys.argv:
        src = "/tmp/w4-%s-out" % pid
        tag = "r4m"
    patch = os.path.join(src, "m%s.diff" % n)
    demo = os.path.join(src, "m%s_demo.rs" % n)
    if "--round5" in sys.argv:
        # round 5: one sub-agent per pair of properties, files named <PID>-m<n>.diff in /tmp/w5-<K>-out
        k = sys.argv[sys.argv.index("--round5") + 1]
        src = "/tmp/w5-%s-out" % k
        tag = "r5m"
        patch = os.path.join(src, "%s-m%s.diff" % (pid, n))
        demo = os.path.join(src, "%s-m%s_demo.rs" % (pid, n))
    if "--round6" in sys.argv:
        # round 6: as round 5, files in /tmp/w6-<K>-out, description in <PID>-m<n>.txt
        k = sys.argv[sys.argv.index("--round6") + 1]
        src = "/tmp/w6-%s-out" % k
        tag = "r6m"
        patch = os.path.join(src, "%s-m%s.diff" % (pid, n))
        demo = os.path.join(src, "%s-m%s_demo.rs" % (pid, n))
    if "--roundN" in sys.argv:
        # later rounds: --roundN <round> <agent>: files <PID>-m<n>.* in /tmp/w<round>-<agent>-out
        rn, k = sys.argv[sys.argv.index("--roundN") + 1], sys.argv[sys.argv.index("--roundN") + 2]
        src = "/tmp/w%s-%s-out" % (rn, k)
        tag = "r%sm" % rn
        patch = os.path.join(src, "%s-m%s.diff" % (pid, n))
        demo = os.path.join(src, "%s-m%s_demo.rs" % (pid, n))
    if "--demo" in sys.argv:
        demo = sys.argv[sys.argv.index("--demo") + 1]
    if not os.path.exists(WT):
        sh(["git", "-C", REPO, "worktree", "add", "-q", "--detach", WT, "HEAD"])
        shutil.copy(os.path.join(REPO, "Cargo.lock"), os.path.join(WT, "Cargo.lock"))
    sh(["git", "checkout", "--", "."], cwd=WT)
    sh(["git", "clean", "-fdq", "tests", "src"], cwd=WT)
    r = sh(["git", "apply", "--whitespace=nowarn", patch], cwd=WT)
    if r.returncode != 0:
        print("FAIL: patch does not apply:", r.stdout[-400:])
        return 1
    r = sh(["cargo", "test", "--workspace", "--no-fail-fast", "--offline"], cwd=WT)
    results = [l for l in r.stdout.splitlines() if l.startswith("test result")]
    passed = sum(int(l.split("ok. ")[1].split(" passed")[0]) for l in results if "ok. " in l)
    if r.returncode != 0 or passed < 78:
        print("FAIL: baseline suite does not pass with the patch (passed=%d)" % passed)
        print("\n".join(l for l in r.stdout.splitlines() if "FAILED" in l or "panicked" in l or l.startswith("error"))[:1500])
        return 1
    name = "seeded_%s_m%s_demo" % (pid.lower(), n)
    shutil.copy(demo, os.path.join(WT, "tests", name + ".rs"))
    with_patch = sh(["cargo", "test", "--offline", "--test", name], cwd=WT)
    sh(["git", "checkout", "--", "."], cwd=WT)
    without = sh(["cargo", "test", "--offline", "--test", name], cwd=WT)
    os.unlink(os.path.join(WT, "tests", name + ".rs"))
    wl = [l for l in with_patch.stdout.splitlines() if l.startswith("test result")]
    ol = [l for l in without.stdout.splitlines() if l.startswith("test result")]
    print("with patch   :", with_patch.returncode, wl[-1:] )
    print("without patch:", without.returncode, ol[-1:])
    if with_patch.returncode == 0 or without.returncode != 0:
        print("FAIL: the demonstration does not discriminate")
        print(with_patch.stdout[-800:] if with_patch.returncode == 0 else without.stdout[-1500:])
        return 1
    d = os.path.join("/verif/seeded", "%s-%s%s" % (pid, tag, n))
    os.makedirs(d, exist_ok=True)
    shutil.copy(patch, os.path.join(d, "patch.diff"))
    shutil.copy(demo, os.path.join(d, "demo.rs"))
    needs = sys.argv[sys.argv.index("--needs") + 1] if "--needs" in sys.argv else ""
    what = sys.argv[sys.argv.index("--what") + 1] if "--what" in sys.argv else ""
    txt = patch[:-5] + ".txt"
    if not what and os.path.exists(txt):
        what = " ".join(open(txt).read().split())
    if not needs and os.path.exists(txt):
        needs = "see 'what'"
    meta = {"property": pid, "origin": "independent sub-agent given only the property text and a scratch worktree" + ("; round 4 (process-level properties only, after all earlier strengthening)" if tag == "r4m" else "") + ("; round 5: adversarial - additionally told, in generic terms, what the strengthened tester drives (corpora, size ladders, nesting contexts, laws) and asked for changes it could still miss" if tag == "r5m" else "") + ("; round 7: as round 6, restricted to faults that need a history, an interleaving, a fault at a particular point or two cooperating sites" if tag == "r7m" else "") + ("; round 6: given only the property text; asked for faults that need something specific to manifest (unusual input, interleaving, multi-step history, a fault at a particular point, two cooperating sites)" if tag == "r6m" else "") + ("; round 3 (after the size ladders and the other round-2 strengthening were in place)" if tag == "r3m" else "") + ("; round 2: additionally told, in generic terms, that the checker is a corpus + random differential tester with laws, and asked for changes such a tester could miss" if tag == "r2m" else ""),
            "what": what, "needs_to_manifest": needs,
            "confirmed": {"baseline_tests_with_patch": "%d passed (cargo test --workspace --no-fail-fast --offline)" % passed,
                          "demo_with_patch": (wl[-1] if wl else "failed to build/run") , "demo_without_patch": ol[-1] if ol else "",
                          "how": "python3 pylane/verify_mutant.py %s %s%s (private worktree /tmp/vfy; demo copied to tests/ and run with cargo test --test)" % (pid, n, " --round2" if tag == "r2m" else (" --round3" if tag == "r3m" else (" --round4" if tag == "r4m" else "")))},
            "also_run": []}
    if "--also" in sys.argv:
        meta["also_run"] = sys.argv[sys.argv.index("--also") + 1].split(",")
    json.dump(meta, open(os.path.join(d, "meta.json"), "w"), indent=1)
    print("KEPT", d)
    return 0


if __name__ == "__main__":
    sys.exit(main())
