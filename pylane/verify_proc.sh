#!/bin/bash
# usage: verify_proc.sh PID N   (C18 | C19), agent 10, slot d
pid=$1; n=$2; WT=/tmp/vfyd; export CARGO_TARGET_DIR=/tmp/vfyd-target CARGO_NET_OFFLINE=true
src=/tmp/w${ROUND:-6}-10-out
cd $WT && git checkout -q -- . && git clean -fdq src tests py
git apply --whitespace=nowarn $src/$pid-m$n.diff || { echo "FAIL apply"; exit 1; }
passed=$(cargo test --workspace --no-fail-fast --offline 2>&1 | grep "^test result: ok" | sed 's/.*ok. \([0-9]*\) passed.*/\1/' | paste -sd+ | bc)
echo "baseline passed=$passed"
run_demo() {
  if [ $pid = C18 ]; then
    cargo build --offline --features cmdline 2>&1 | grep -E "^error" ; python3 $src/$pid-m${n}_demo.py $CARGO_TARGET_DIR/debug/jsonlogic > /tmp/r6/demo_$pid$n.$1.out 2>&1; echo $?
  else
    PYTHON_SYS_EXECUTABLE=$(which python3) cargo build --offline --features python --lib 2>&1 | grep -E "^error"
    rm -rf /tmp/vfyd-pkg; mkdir -p /tmp/vfyd-pkg/jsonlogic_rs; cp py/jsonlogic_rs/__init__.py /tmp/vfyd-pkg/jsonlogic_rs/; cp $CARGO_TARGET_DIR/debug/libjsonlogic_rs.so /tmp/vfyd-pkg/jsonlogic_rs/jsonlogic.so
    PYTHONPATH=/tmp/vfyd-pkg python3 $src/$pid-m${n}_demo.py > /tmp/r6/demo_$pid$n.$1.out 2>&1; echo $?
  fi
}
w=$(run_demo with); echo "demo with patch rc=$w"
git checkout -q -- . 
o=$(run_demo without); echo "demo without patch rc=$o"
if [ "$passed" -ge 78 ] && [ "$w" != 0 ] && [ "$o" = 0 ]; then
  d=/verif/seeded/$pid-r${ROUND:-6}m$n; mkdir -p $d; cp $src/$pid-m$n.diff $d/patch.diff; cp $src/$pid-m${n}_demo.py $d/demo.py
  python3 - "$pid" "$n" "$passed" "$w" <<'P'
import json,sys
pid,n,passed,w=sys.argv[1:5]
what=" ".join(open("/tmp/w%s-10-out/%s-m%s.txt"%(__import__("os").environ.get("ROUND","6"),pid,n)).read().split())
json.dump({"property":pid,"origin":"independent sub-agent given only the property text and a scratch worktree; round "+__import__("os").environ.get("ROUND","6")+": asked for faults that need something specific to manifest (unusual input, interleaving, multi-step history, a fault at a particular point, two cooperating sites)","what":what,"needs_to_manifest":"see 'what'","confirmed":{"baseline_tests_with_patch":"%s passed (cargo test --workspace --no-fail-fast --offline, private worktree /tmp/vfyd)"%passed,"how":"patch in /tmp/vfyd + binary / extension rebuilt: demo -> rc=%s; reverted: rc=0"%w},"also_run":[]},open("/verif/seeded/%s-r%sm%s/meta.json"%(pid,__import__("os").environ.get("ROUND","6"),n),"w"),indent=1)
P
  echo "KEPT $d"
else echo "FAIL discriminate"; fi
