#!/bin/sh
# MANIFEST.setup_cmd: build every lane once, offline, from files on disk only.
# All build output goes to /verif/target (git-ignored); nothing is written under /repo.
set -e
cd "$(dirname "$0")"
export CARGO_NET_OFFLINE=true
exec python3 pylane/setup_lanes.py "$@"
